//vf:pkg config
package config

import (
	"context"
	"errors"
	"time"

	nd "github.com/samaritan-proxy/samaritan/vfnd"
)

// vfCtx is a context whose Done channel the harness closes.
type vfCtx struct{ done chan struct{} }

func (c *vfCtx) Deadline() (time.Time, bool)       { return time.Time{}, false }
func (c *vfCtx) Done() <-chan struct{}             { return c.done }
func (c *vfCtx) Err() error                        { return nil }
func (c *vfCtx) Value(key interface{}) interface{} { return nil }

var vfErrStream = errors.New("vf: stream broken")

// vfStream is one generation of the discovery stream: it tracks the set of services subscribed on
// it (subscribe requests minus unsubscribe requests, applied in the order sent; within one
// request subscriptions are applied before unsubscriptions) and can break.
type vfStream struct {
	set    map[string]bool
	msgs   int
	broken chan struct{}
	isBroken bool
	sendFailsAt int
}

func (s *vfStream) breakNow() {
	if !s.isBroken {
		s.isBroken = true
		close(s.broken)
	}
}

func (s *vfStream) Send(sub, unsub []string) error {
	if s.isBroken || s.msgs == s.sendFailsAt {
		s.breakNow()
		return vfErrStream
	}
	s.msgs++
	for _, n := range sub {
		s.set[n] = true
	}
	for _, n := range unsub {
		delete(s.set, n)
	}
	return nil
}

func (s *vfStream) Recv() error {
	<-s.broken // nothing is pushed by the server in this harness; Recv ends when the stream breaks
	return vfErrStream
}

// VfC16_Subscriptions: for any sequence of Subscribe/Unsubscribe calls interleaved with stream
// creation failures, send failures and re-establishment, the caller is never parked forever and,
// once things are quiet with a live stream, the services subscribed on that stream are exactly the
// current dependency set.
func VfC16_Subscriptions() {
	nd.ConcreteClock(true)
	qcap := nd.Param("qcap", 2)
	ctx := &vfCtx{done: make(chan struct{})}
	var streams []*vfStream
	maxGen := nd.Param("generations", 2)
	if nd.Bool("stream-down-for-long") {
		maxGen = 0 // the discovery service is unreachable for the whole run
	}
	firstFails := nd.Bool("first-create-fails")
	attempts := 0
	c := &svcDiscoveryClient{
		scope:      "vf",
		subscribed: map[string]struct{}{},
		subCh:      make(chan string, qcap),
		unsubCh:    make(chan string, qcap),
	}
	c.newStream = func(cx context.Context) (svcDiscoveryStream, error) {
		attempts++
		if attempts == 1 && firstFails {
			return nil, vfErrStream
		}
		if len(streams) >= maxGen {
			<-ctx.done // no further generation within the bound: park until the end
			return nil, vfErrStream
		}
		s := &vfStream{set: map[string]bool{}, broken: make(chan struct{}), sendFailsAt: -1}
		if len(streams) == 0 && nd.Bool("send-fails") {
			s.sendFailsAt = nd.Concrete(nd.IntRange("failat", 0, 1))
		}
		streams = append(streams, s)
		return s, nil
	}
	names := []string{"x", "y"}
	ncalls := nd.Param("calls", 3)
	callerDone := false
	subbed, unsubbed := map[string]bool{}, map[string]bool{}
	go c.Run(ctx)
	go func() {
		for i := 0; i < ncalls; i++ {
			n := names[nd.Concrete(nd.Choice("name", len(names)))]
			if nd.Bool("unsubscribe") {
				unsubbed[n] = true
				c.Unsubscribe(n)
			} else {
				subbed[n] = true
				c.Subscribe(n)
			}
		}
		callerDone = true
	}()
	nd.PanicLabel("discovery")
	nd.Quiesce()
	nd.Class("caller-blocks-on-full-queue-holding-the-lock", !callerDone && (len(c.subCh) == qcap || len(c.unsubCh) == qcap))
	nd.Assert(callerDone, "the caller of Subscribe/Unsubscribe is never parked forever")
	if callerDone && len(streams) > 0 {
		live := streams[len(streams)-1]
		if !live.isBroken && len(c.subCh) == 0 && len(c.unsubCh) == 0 {
			nd.Cover("live-stream-quiet")
			same := len(live.set) == len(c.subscribed)
			for n := range c.subscribed {
				if !live.set[n] {
					same = false
				}
			}
			// the known reordering needs a name that was both subscribed and unsubscribed (two queues)
			mixed := false
			for _, n := range names {
				if subbed[n] && unsubbed[n] {
					mixed = true
				}
			}
			nd.Class("subscribe-unsubscribe-reordered", !same && mixed)
			nd.Assert(same, "the services subscribed on the live stream are exactly the current dependency set")
		}
	}
	close(ctx.done)
}
