//vf:pkg proc/redis
package redis

import (
	"github.com/samaritan-proxy/samaritan/proc/redis/hotkey"
	"io"
	"time"

	nd "github.com/samaritan-proxy/samaritan/vfnd"
)

// VfC01_ReplyFraming: whatever bytes a request carries (command names with CR, LF, NUL, ...), a
// reply produced by the proxy itself is, on the wire, exactly one RESP value.
func VfC01_ReplyFraming() {
	p, clients := vfNewProc(nil, "10.0.0.1:7000")
	nargs := nd.Concrete(nd.IntRange("nargs", 1, nd.Param("args", 3)))
	var arr []RespValue
	for i := 0; i < nargs; i++ {
		l := 1
		if i == 0 {
			l = nd.Concrete(nd.IntRange("alen", 0, nd.Param("arglen", 3)))
		}
		b := nd.Bytes("a", l)
		if i == 0 {
			for j := range b {
				nd.Assume(b[j] < 0x80) // ASCII command names; others outside the claim (C14)
			}
		}
		arr = append(arr, *newBulkBytes(b))
	}
	raw := newRawRequest(newArray(arr...))
	nd.PanicLabel("handleRequest")
	p.handleRequest(raw)
	if !vfDone(raw.done) {
		nd.Assert(vfForwarded(clients) > 0, "a request that is not answered locally was handed to a backend")
		nd.Cover("forwarded")
		return
	}
	nd.Cover("answered-locally")
	sink := &vfSink{}
	enc := newEncoder(sink, 8192)
	nd.Assert(enc.Encode(raw.Response()) == nil && enc.Flush() == nil, "the reply can be encoded")
	dec := newDecoder(&vfChunkReader{data: sink.b}, 4096)
	v, err := dec.Decode()
	nd.Class("crlf-in-command-name", true)
	nd.Assert(err == nil && v.Type == raw.Response().Type, "the reply bytes decode to one value of the reply's type")
	if err != nil {
		return
	}
	consumed := len(sink.b) - dec.br.buffered()
	nd.Assert(consumed == len(sink.b), "the reply bytes are exactly one RESP value (no request content can add or remove a reply)")
	_, err = dec.Decode()
	nd.Assert(err == io.EOF, "nothing follows the reply")
}

// VfC01_HotKeyReply: the HOTKEY report embeds key names other clients sent (arbitrary bytes, CR LF
// included). Whatever those names are, the report is, on the wire, exactly one RESP value.
func VfC01_HotKeyReply() {
	nd.ConcreteClock(true)
	p, _ := vfNewProc(nil, "10.0.0.1:7000")
	key := nd.Bytes("key", nd.Param("keylen", 4))
	ctr := p.u.hkc.AllocCounter("10.0.0.1:7000")
	ctr.Incr(string(key)) // some connection accessed this key
	stop := make(chan struct{})
	go p.u.hkc.Run(stop) // the collector's period elapses (its tickers may fire)
	nd.Quiesce()
	if !nd.Symbolic() {
		// native replay: really wait for the collector's 10 s period
		for i := 0; i < 130 && len(p.u.HotKeys()) == 0; i++ {
			time.Sleep(100 * time.Millisecond)
		}
	}
	close(stop)
	nd.Quiesce()
	if len(p.u.HotKeys()) == 0 {
		return
	}
	nd.Cover("key-collected")
	raw := newRawRequest(newArray(*newBulkString("hotkey")))
	nd.PanicLabel("handleRequest")
	p.handleRequest(raw)
	nd.Assert(vfDone(raw.done), "HOTKEY is answered locally")
	if !vfDone(raw.done) {
		return
	}
	sink := &vfSink{}
	enc := newEncoder(sink, 8192)
	nd.Assert(enc.Encode(raw.Response()) == nil && enc.Flush() == nil, "the reply can be encoded")
	dec := newDecoder(&vfChunkReader{data: sink.b}, 4096)
	v, err := dec.Decode()
	nd.Assert(err == nil && v.Type == raw.Response().Type, "the report decodes to one value of the reply's type")
	if err != nil {
		return
	}
	consumed := len(sink.b) - dec.br.buffered()
	nd.Assert(consumed == len(sink.b), "the report is exactly one RESP value whatever bytes the collected key names contain")
	_, err = dec.Decode()
	nd.Assert(err == io.EOF, "nothing follows the report")
}

// VfC01_Split: MGET / MSET / DEL-family requests are split per key in argument order; whatever
// order the per-key answers arrive in, the client's request is completed exactly once, after the
// last answer, and its reply is assembled by argument position.
func VfC01_Split() {
	p, clients := vfNewProc(nil, "10.0.0.1:7000")
	c := clients["10.0.0.1:7000"]
	kinds := []string{"mget", "mset", "del", "UNLINK"}
	cmd := kinds[nd.Concrete(nd.Choice("cmd", len(kinds)))]
	isMset := cmd == "mset"
	isMget := cmd == "mget" || cmd == "MGET"
	n := nd.Concrete(nd.IntRange("keys", 1, nd.Param("keys", 3)))
	arr := []RespValue{*newBulkString(cmd)}
	for i := 0; i < n; i++ {
		k := nd.Bytes("k", 2)
		nd.Assume(k[0] != '{' && k[1] != '{') // hash tags are C12's subject; avoids a fork per key byte
		arr = append(arr, *newBulkBytes(k))
		if isMset {
			arr = append(arr, *newBulkBytes(nd.Bytes("v", 2)))
		}
	}
	raw := newRawRequest(newArray(arr...))
	nd.PanicLabel("split")
	p.handleRequest(raw)
	var kids []*simpleRequest
	for r := vfTake(c); r != nil; r = vfTake(c) {
		kids = append(kids, r)
	}
	nd.Assert(len(kids) == n && !vfDone(raw.done), "one per-key request per key, the client is not answered yet")
	if len(kids) != n {
		return
	}
	for i, k := range kids {
		b := k.Body().Array
		ki := 1 + i
		if isMset {
			ki = 1 + 2*i
			nd.Assert(len(b) == 3 && vfBytesEq(b[0].Text, []byte("set")) && &b[1].Text[0] == &arr[ki].Text[0] && &b[2].Text[0] == &arr[ki+1].Text[0],
				"MSET child i is SET key_i value_i with the client's own bytes")
		} else if isMget {
			nd.Assert(len(b) == 2 && vfBytesEq(b[0].Text, []byte("get")) && &b[1].Text[0] == &arr[ki].Text[0], "MGET child i is GET key_i with the client's own bytes")
		} else {
			nd.Assert(len(b) == 2 && &b[0].Text[0] == &arr[0].Text[0] && &b[1].Text[0] == &arr[ki].Text[0], "DEL-family child i is <cmd> key_i with the client's own bytes")
		}
	}
	// answers arrive in an arbitrary order
	left := make([]int, n)
	for i := range left {
		left[i] = i
	}
	replies := make([]*RespValue, n)
	sum := int64(0)
	allInt := true
	for len(left) > 0 {
		j := nd.Concrete(nd.Choice("next", len(left)))
		i := left[j]
		left = append(left[:j], left[j+1:]...)
		var r *RespValue
		switch nd.Concrete(nd.IntRange("rtype", 0, 2)) {
		case 0:
			r = newInteger(int64(nd.IntRange("ival", 0, 1000)))
			sum += r.Int
		case 1:
			r = newBulkBytes(nd.Bytes("val", 2))
			allInt = false
		case 2:
			r = newError("ERR some")
			allInt = false
		}
		replies[i] = r
		nd.Assert(!vfDone(raw.done), "the client is not answered before the last per-key answer")
		kids[i].SetResponse(r)
		if len(left) > 0 {
			nd.Assert(!vfDone(raw.done), "the client is not answered before the last per-key answer")
		}
	}
	nd.Assert(vfDone(raw.done), "the client is answered once the last per-key answer arrived")
	resp := raw.Response()
	switch {
	case isMget:
		nd.Assert(resp.Type == Array && len(resp.Array) == n, "MGET reply has one element per key")
		for i := 0; i < n && i < len(resp.Array); i++ {
			nd.Assert(vfSame(&resp.Array[i], replies[i]), "MGET reply element i is the answer for key i")
		}
		nd.Cover("mget-assembled")
	case isMset:
		if allInt || true {
			nd.Assert(resp.Type == SimpleString || resp.Type == Error, "MSET reply is a status")
		}
	default:
		if allInt {
			nd.Assert(resp.Type == Integer && resp.Int == sum, "DEL-family reply is the sum of the per-key counts")
			nd.Cover("sum-assembled")
		} else {
			nd.Assert(resp.Type == Error, "a failed per-key command fails the DEL-family command")
		}
	}
}

// VfC19_CountedName: the name a command's access is counted under is the key the command names,
// whole - for short keys and for keys of several hundred bytes (two long keys that differ only in
// their last byte are two keys) - and commands without a key (EVAL, SCAN, CLUSTER, AUTH) count
// nothing: the HOTKEY report can then only contain keys that were actually accessed.
func VfC19_CountedName() {
	ctr := hotkey.NewCounter(4, nil)
	f := newHotKeyFilter(ctr)
	lens := []int{1, 2, 127, 128, 129, 300, 1100}
	l := lens[nd.Concrete(nd.Choice("keylen", len(lens)))]
	key := make([]byte, l)
	for i := range key {
		key[i] = 'p' // a long common prefix (a namespace) ...
	}
	key[l-1] = nd.Byte("last") // ... and an arbitrary last byte
	other := append([]byte{}, key...)
	other[l-1] = key[l-1] + 1
	cmds := []string{"get", "set", "hget", "eval", "scan"}
	cmd := cmds[nd.Concrete(nd.Choice("cmd", len(cmds)))]
	nd.PanicLabel("counted-name")
	f.Do(cmd, newSimpleRequest(newArray(*newBulkString(cmd), *newBulkBytes(key), *newBulkString("x"))))
	f.Do(cmd, newSimpleRequest(newArray(*newBulkString(cmd), *newBulkBytes(other), *newBulkString("x"))))
	got := ctr.Latch()
	if cmd == "eval" || cmd == "scan" {
		nd.Assert(len(got) == 0, "commands without a key count nothing")
		return
	}
	nd.Assert(len(got) == 2 && got[string(key)] == 1 && got[string(other)] == 1, "an access is counted under the whole key the command names (two keys that differ in their last byte are two keys)")
	nd.Cover("counted")
}
