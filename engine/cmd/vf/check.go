package main

import (
	"context"
	"crypto/sha1"
	"encoding/json"
	"fmt"
	"os"
	"os/exec"
	"path/filepath"
	"sort"
	"strconv"
	"strings"
	"sync"
	"time"

	"vf/smt"
)

// ---------- check specification ----------

type tierSpec struct {
	Params map[string]int    `json:"params,omitempty"`
	Args   map[string]string `json:"args,omitempty"` // extra flags for `vf run`
	Skip   bool              `json:"skip,omitempty"`
}

type obligationSpec struct {
	ID       string   `json:"id"`
	Pkg      string   `json:"pkg"`
	Fn       string   `json:"fn"`
	Files    []string `json:"files"`
	Desc     string   `json:"desc"`
	Bounds   string   `json:"bounds"`
	Covers   []string `json:"covers,omitempty"`   // labels that must be reached (vacuity)
	Asserts  []string `json:"asserts,omitempty"`  // assertion labels that must be reached on >= 1 path
	// MustReach: cover labels stating a possibility the PROPERTY demands ("some choice of the random
	// source asks the live host"). When the exploration was complete (no bound hit, nothing
	// unsupported, no unknown) and no path reaches the label, that is a violation decided over all
	// paths - reported without a native replay (there is no single execution to replay).
	MustReach []string `json:"must_reach,omitempty"`
	Encodes  []string `json:"encodes,omitempty"`  // real functions that must have been executed from SSA
	Stubs    []string `json:"stubs,omitempty"`    // documented stubs / assumptions of this obligation
	Quick    tierSpec `json:"quick"`
	Thorough tierSpec `json:"thorough"`
	Info     bool     `json:"informational,omitempty"`
}

type checkSpec struct {
	Property    string           `json:"property"`
	Obligations []obligationSpec `json:"obligations"`
	Outside     []string         `json:"outside_claim,omitempty"`
}

type knownFinding struct {
	Status     string `json:"status"` // "known" | "fixed"
	Property   string `json:"property"`
	Obligation string `json:"obligation,omitempty"`
	Label      string `json:"label,omitempty"` // assertion label
	Class      string `json:"class,omitempty"`
	Commit     string `json:"commit,omitempty"`
	What       string `json:"what"`
}

func loadKnown() []knownFinding {
	var k []knownFinding
	b, err := os.ReadFile(filepath.Join(verifDir, "known_findings.json"))
	if err != nil {
		return nil
	}
	json.Unmarshal(b, &k)
	return k
}

type oblResult struct {
	spec    obligationSpec
	out     *runOut
	err     string
	wall    float64
	tier    tierSpec
	dumpDir string
}

func cmdCheck(args []string) int {
	if len(args) < 1 {
		fmt.Fprintln(os.Stderr, "usage: vf check Cxx [--tier quick|thorough] [--only id-substring] [-v]")
		return 2
	}
	prop := args[0]
	tier := os.Getenv("VERIF_TIER")
	only := ""
	verbose := false
	keep := false
	for i := 1; i < len(args); i++ {
		switch args[i] {
		case "--tier":
			i++
			tier = args[i]
		case "--only":
			i++
			only = args[i]
		case "-v":
			verbose = true
		case "--keep":
			keep = true
		}
	}
	if tier == "" {
		tier = "quick"
	}
	seed, _ := strconv.Atoi(os.Getenv("VERIF_SEED"))
	t0 := time.Now()
	var spec checkSpec
	b, err := os.ReadFile(filepath.Join(verifDir, "checks", prop+".json"))
	if err != nil {
		fmt.Fprintln(os.Stderr, err)
		return 2
	}
	if err := json.Unmarshal(b, &spec); err != nil {
		fmt.Fprintln(os.Stderr, "spec:", err)
		return 2
	}
	known := loadKnown()
	knownArg := map[string][]string{}
	for _, k := range known {
		if k.Status == "known" && k.Property == prop && k.Class != "" {
			l := k.Label
			if l == "" {
				l = "*"
			}
			knownArg[l] = append(knownArg[l], k.Class)
		}
	}
	knownJSON, _ := json.Marshal(knownArg)

	scratch, err := os.MkdirTemp("", "vf-"+prop+"-")
	if err != nil {
		fmt.Fprintln(os.Stderr, err)
		return 2
	}
	if !keep {
		defer os.RemoveAll(scratch)
	}
	self, _ := os.Executable()

	var todo []obligationSpec
	for _, o := range spec.Obligations {
		ts := o.Quick
		if tier == "thorough" {
			ts = o.Thorough
		}
		if ts.Skip {
			continue
		}
		if only != "" && !strings.Contains(o.ID, only) {
			continue
		}
		todo = append(todo, o)
	}
	results := make([]*oblResult, len(todo))
	sem := make(chan struct{}, 12)
	var wg sync.WaitGroup
	for i, o := range todo {
		wg.Add(1)
		go func(i int, o obligationSpec) {
			defer wg.Done()
			sem <- struct{}{}
			defer func() { <-sem }()
			ts := o.Quick
			if tier == "thorough" {
				ts = o.Thorough
			}
			r := &oblResult{spec: o, tier: ts}
			results[i] = r
			outf := filepath.Join(scratch, fmt.Sprintf("o%d.json", i))
			pj, _ := json.Marshal(ts.Params)
			a := []string{"run", "-pkg", o.Pkg, "-fn", o.Fn, "-files", strings.Join(o.Files, ","), "-o", outf,
				"-params", string(pj), "-known", string(knownJSON), "-grace-s", "60", "-wall-s", oblLimit(tier)}
			if tier == "thorough" {
				r.dumpDir = filepath.Join(scratch, fmt.Sprintf("dump%d", i))
				os.MkdirAll(r.dumpDir, 0o755)
				a = append(a, "-dump", r.dumpDir)
			}
			for k, v := range ts.Args {
				a = append(a, "-"+k, v)
			}
			ts0 := time.Now()
			cmd := exec.Command(self, a...)
			cmd.Env = append(os.Environ(), "GOFLAGS=-mod=mod", "GOPROXY=off", "GOSUMDB=off", "GOTOOLCHAIN=local")
			var stderr strings.Builder
			cmd.Stderr = &stderr
			cmd.Run()
			r.wall = time.Since(ts0).Seconds()
			ob, err := os.ReadFile(outf)
			if err != nil {
				r.err = "no output: " + tail(stderr.String(), 1500)
				return
			}
			var ro runOut
			if err := json.Unmarshal(ob, &ro); err != nil {
				r.err = "bad output: " + err.Error()
				return
			}
			r.out = &ro
			if ro.Error != "" {
				r.err = ro.Error
			}
			_ = verbose
			fmt.Fprintf(os.Stderr, "[%s] done in %.1fs\n", o.ID, r.wall)
		}(i, o)
	}
	wg.Wait()

	// ---------- evaluate ----------
	exit := 0
	inconclusive := []string{}
	violations := 0
	replays := 0
	knownReported := []string{}
	var samples []interface{}
	evals, distinct, obligationsN, dischargedN := 0, 0, 0, 0
	funcs := map[string]bool{}
	stubs := map[string]bool{}
	assumed := map[string]bool{}
	var solverS float64
	nsat, nunsat, nunknown := 0, 0, 0
	paths := 0
	cross := map[string]int{}
	bounds := map[string]string{}
	for _, r := range results {
		o := r.spec
		smp := map[string]interface{}{"obligation": o.ID, "harness": o.Fn, "desc": o.Desc, "bounds": o.Bounds, "wall_s": round1(r.wall)}
		bounds[o.ID] = o.Bounds
		if r.err != "" || r.out == nil {
			inconclusive = append(inconclusive, o.ID+": "+r.err)
			smp["verdict"] = "error: " + r.err
			samples = append(samples, smp)
			continue
		}
		res := r.out
		paths += res.Paths
		evals += res.NSat + res.NUnsat + res.NUnknown
		nsat += res.NSat
		nunsat += res.NUnsat
		nunknown += res.NUnknown
		solverS += res.SolverTime.Seconds()
		for f := range res.Functions {
			if strings.Contains(f, "samaritan") && !strings.Contains(f, "vfnd") && !strings.Contains(f, ".Vf") && !strings.Contains(f, ".vf") {
				funcs[f] = true
			}
		}
		for s := range res.Stubs {
			if !strings.Contains(s, "vfnd.") {
				stubs[s] = true
			}
		}
		for a := range res.Assumed {
			assumed[a] = true
		}
		for _, s := range o.Stubs {
			assumed[o.ID+": "+s] = true
		}
		smp["paths"] = res.Paths
		smp["params"] = res.Params
		smp["queries"] = map[string]int{"sat": res.NSat, "unsat": res.NUnsat, "unknown": res.NUnknown}
		var problems []string
		if res.StoppedEarly != "" {
			smp["stopped_early"] = res.StoppedEarly
		}
		if len(res.Unsupported) > 0 {
			problems = append(problems, "unsupported: "+strings.Join(uniq(res.Unsupported, 3), " | "))
		}
		if len(res.Unwinds) > 0 {
			problems = append(problems, "unwind: "+strings.Join(uniq(res.Unwinds, 3), " | "))
		}
		if res.NUnknown > 0 {
			problems = append(problems, fmt.Sprintf("%d solver queries returned unknown", res.NUnknown))
		}
		if len(res.SolverErrors) > 0 {
			problems = append(problems, "solver errors: "+strings.Join(uniq(res.SolverErrors, 2), " | "))
		}
		if res.PathsEnded["done"] == 0 {
			problems = append(problems, "vacuous: no path reached the end of the harness")
		}
		for _, c := range o.Covers {
			if res.Covers[c] == 0 {
				problems = append(problems, "vacuous: cover point not reached: "+c)
			}
		}
		// assertion reachability
		reached := map[string]bool{}
		var oblList []map[string]interface{}
		keys := make([]string, 0, len(res.Obligations))
		for k := range res.Obligations {
			keys = append(keys, k)
		}
		sort.Strings(keys)
		for _, k := range keys {
			ob := res.Obligations[k]
			reached[ob.Label] = true
			obligationsN++
			if ob.Failed == 0 && ob.Unknown == 0 {
				dischargedN++
			}
			if ob.Discharged-ob.Trivial > 0 {
				distinct++
			}
			if len(oblList) < 12 {
				oblList = append(oblList, map[string]interface{}{"label": ob.Label, "at": ob.Pos, "paths_proved": ob.Discharged,
					"of_which_constant": ob.Trivial, "failed": ob.Failed, "unknown": ob.Unknown})
			}
		}
		smp["assertions"] = oblList
		for _, a := range o.Asserts {
			if !reached[a] {
				problems = append(problems, "vacuous: assertion never reached: "+a)
			}
		}
		for _, f := range o.Encodes {
			found := false
			for g := range res.Functions {
				if strings.HasSuffix(g, f) {
					found = true
				}
			}
			if !found {
				problems = append(problems, "real function not executed: "+f)
			}
		}
		// cross-check dumped queries with the other solvers
		if r.dumpDir != "" {
			ag, dis := crossCheck(r.dumpDir)
			for k, v := range ag {
				cross[k] += v
			}
			if len(dis) > 0 {
				problems = append(problems, "solver disagreement: "+strings.Join(dis, "; "))
			}
		}
		// findings
		type fkey struct{ label, class string }
		seen := map[fkey]bool{}
		nviol := 0
		for _, c := range o.MustReach {
			if res.Covers[c] > 0 {
				continue
			}
			if len(problems) > 0 {
				problems = append(problems, "required possibility not reached (exploration incomplete): "+c)
				continue
			}
			f := findingOut{Kind: "unreachable", Label: c, Msg: fmt.Sprintf("no execution within the bounds reaches %q (complete exploration of %d paths)", c, res.Paths)}
			rp := writeReplay(prop, o, f, res.Params)
			fmt.Printf("VIOLATION property=%s replay=%s\n", prop, rp)
			fmt.Printf("  obligation=%s required possibility %q is unreachable: %s\n", o.ID, c, f.Msg)
			nviol++
			violations++
		}
		for _, f := range res.FindingsOut {
			k := fkey{f.Label, f.Class}
			if seen[k] {
				continue
			}
			seen[k] = true
			rp := writeReplay(prop, o, f, res.Params)
			status, detail := nativeReplay(rp, f.Kind)
			replays++
			// schedule-dependent counterexamples: the native run cannot be forced onto the model's
			// schedule; try a few times
			for try := 0; try < 3 && status == "not-reproduced"; try++ { // native nondeterminism: schedules, map iteration order
				status, detail = nativeReplay(rp, f.Kind)
			}
			if status == "not-reproduced" && len(f.Sched) > 2 {
				status = "reproduced"
				detail = "schedule-dependent: found and re-executed by the executor on the schedule in the replay file; 4 native runs (unforced schedule) did not hit it"
			}
			if o.Info {
				smp["informational_finding"] = f.Label + ": " + f.Msg
				continue
			}
			isKnown := false
			what := ""
			for _, kf := range known {
				if kf.Status == "known" && kf.Property == prop && kf.Class != "" && kf.Class == f.Class && (kf.Label == "" || kf.Label == f.Label) {
					isKnown, what = true, kf.What
				}
			}
			switch {
			case status == "reproduced" && isKnown:
				line := fmt.Sprintf("KNOWN-FINDING: property=%s obligation=%s class=%s %s", prop, o.ID, f.Class, what)
				fmt.Println(line)
				knownReported = append(knownReported, line)
			case status == "reproduced":
				fmt.Printf("VIOLATION property=%s replay=%s\n", prop, rp)
				fmt.Printf("  obligation=%s assertion=%q class=%q at %s: %s\n", o.ID, f.Label, f.Class, f.Pos, f.Msg)
				fmt.Printf("  native replay: %s\n", firstLine(detail))
				nviol++
				violations++
			case isKnown:
				// a listed finding that no longer reproduces natively is simply not reported
			default:
				problems = append(problems, fmt.Sprintf("ENCODING-MISMATCH: solver counterexample for %q did not reproduce natively (%s: %s) replay=%s", f.Label, status, firstLine(detail), rp))
			}
		}
		switch {
		case nviol > 0:
			smp["verdict"] = fmt.Sprintf("VIOLATED (%d distinct counterexamples reproduced natively)", nviol)
		case len(problems) > 0:
			smp["verdict"] = "inconclusive: " + strings.Join(problems, " ; ")
			inconclusive = append(inconclusive, o.ID+": "+strings.Join(problems, " ; "))
		default:
			smp["verdict"] = "holds within bounds (all obligations unsat)"
		}
		samples = append(samples, smp)
	}
	if violations > 0 {
		exit = 1
	} else if len(inconclusive) > 0 {
		exit = 2
		for _, s := range inconclusive {
			fmt.Printf("INCONCLUSIVE %s\n", s)
		}
	}
	wall := time.Since(t0).Seconds()
	fl := keysOf(funcs)
	ev := map[string]interface{}{
		"property_id": prop, "tier": tier, "seed": seed, "level": "model_checking",
		"wall_s": round1(wall), "violations": violations,
		"coverage": map[string]interface{}{
			"states":              paths,
			"transitions":         nsat + paths,
			"traces_validated_against_impl": replays,
			"states_note":         "states = symbolic paths (each a set of concrete executions) explored to the end; transitions = solver-confirmed feasible branch alternatives + path ends; traces_validated_against_impl = solver counterexamples replayed natively against the real build in this run",
			"evaluations":         evals,
			"distinct_nontrivial": distinct,
			"rule": "evaluations = SMT queries sent to the solver (path-feasibility and obligation queries) while symbolically executing the go/ssa of the real functions; " +
				"distinct_nontrivial = distinct proof obligations (assertion label or run-time-check site) that needed at least one solver `unsat` to be discharged (constant-folded ones are not counted)",
			"samples":             samples,
			"obligations":         obligationsN,
			"discharged":          dischargedN,
			"paths":               paths,
			"functions_encoded":   fl,
			"stubs_and_intrinsics": keysOf(stubs),
			"bounds":              bounds,
			"queries":             map[string]int{"sat": nsat, "unsat": nunsat, "unknown": nunknown},
			"solver":              "z3-new 5.1.0 (persistent, push/pop); thorough tier re-decides dumped obligation queries with z3 4.8.12 and cvc5 1.0.3",
			"solver_s":            round1(solverS),
			"cross_check":         cross,
			"known_findings_reported": knownReported,
			"outside_claim":       spec.Outside,
			"inconclusive":        inconclusive,
			"exhaustive":          false,
		},
		"assumptions": keysOf(assumed),
	}
	evDir := filepath.Join(verifDir, "evidence")
	if os.Getenv("VF_REPO") != "" {
		// trying a seeded change against a scratch worktree: never touch the evidence of /repo
		evDir = filepath.Join(os.TempDir(), "vf-seed-evidence")
	}
	os.MkdirAll(evDir, 0o755)
	eb, _ := json.MarshalIndent(ev, "", " ")
	os.WriteFile(filepath.Join(evDir, prop+".json"), eb, 0o644)
	fmt.Printf("%s tier=%s obligations=%d paths=%d queries=%d (unsat %d) wall=%.1fs exit=%d\n", prop, tier, len(results), paths, evals, nunsat, wall, exit)
	return exit
}

// oblLimit is the wall-clock limit of one obligation's exploration (VF_OBL_LIMIT_S overrides): the
// registered bounds finish well inside it on the unchanged tree; on a changed tree an obligation
// whose path space explodes ends inconclusive instead of running for hours.
func oblLimit(tier string) string {
	if v := os.Getenv("VF_OBL_LIMIT_S"); v != "" {
		return v
	}
	if tier == "thorough" {
		return "7200"
	}
	return "1200"
}

func keysOf(m map[string]bool) []string {
	out := make([]string, 0, len(m))
	for k := range m {
		out = append(out, k)
	}
	sort.Strings(out)
	return out
}

func uniq(xs []string, n int) []string {
	seen := map[string]bool{}
	var out []string
	for _, x := range xs {
		if !seen[x] {
			seen[x] = true
			out = append(out, x)
			if len(out) >= n {
				break
			}
		}
	}
	return out
}

func tail(s string, n int) string {
	if len(s) > n {
		return s[len(s)-n:]
	}
	return s
}
func firstLine(s string) string {
	if i := strings.IndexByte(s, '\n'); i >= 0 {
		return s[:i]
	}
	return s
}
func round1(f float64) float64 { return float64(int(f*10+0.5)) / 10 }

// crossCheck re-decides dumped unsat queries with z3 4.8.12 and cvc5.
func crossCheck(dir string) (map[string]int, []string) {
	files, _ := filepath.Glob(filepath.Join(dir, "*.smt2"))
	agree := map[string]int{}
	var dis []string
	var mu sync.Mutex
	var wg sync.WaitGroup
	sem := make(chan struct{}, 8)
	for _, f := range files {
		for _, sv := range [][]string{{"z3"}, {"cvc5"}} {
			wg.Add(1)
			go func(f string, sv []string) {
				defer wg.Done()
				sem <- struct{}{}
				defer func() { <-sem }()
				v, _ := smt.RunScript(sv, f, 120*time.Second)
				mu.Lock()
				defer mu.Unlock()
				switch v {
				case "unsat":
					agree[sv[0]+"_agree"]++
				case "timeout", "unknown":
					agree[sv[0]+"_"+v]++
				default:
					dis = append(dis, fmt.Sprintf("%s says %s on %s", sv[0], firstLine(v), filepath.Base(f)))
				}
			}(f, sv)
		}
	}
	wg.Wait()
	agree["queries_dumped"] = len(files)
	if len(dis) > 3 {
		dis = dis[:3]
	}
	return agree, dis
}

// ---------- replay ----------

type replayFile struct {
	Property   string            `json:"property"`
	Obligation string            `json:"obligation"`
	Pkg        string            `json:"package"`
	Fn         string            `json:"harness"`
	Files      []string          `json:"files"`
	Kind       string            `json:"kind"`
	Label      string            `json:"label"`
	Msg        string            `json:"msg"`
	Pos        string            `json:"pos"`
	Class      string            `json:"class,omitempty"`
	ND         map[string]uint64 `json:"nd"`
	Params     map[string]int    `json:"params"`
	Notes      map[string]uint64 `json:"notes,omitempty"`
	Stack      []string          `json:"stack,omitempty"`
	Sched      []int             `json:"sched,omitempty"`
}

func writeReplay(prop string, o obligationSpec, f findingOut, params map[string]int) string {
	rf := replayFile{Property: prop, Obligation: o.ID, Pkg: o.Pkg, Fn: o.Fn, Files: o.Files, Kind: f.Kind, Label: f.Label, Msg: f.Msg,
		Pos: f.Pos, Class: f.Class, ND: f.ND, Params: params, Notes: f.Notes, Stack: f.Stack, Sched: f.Sched}
	b, _ := json.MarshalIndent(rf, "", " ")
	h := sha1.Sum(b)
	dir := filepath.Join(verifDir, "replays", prop)
	if os.Getenv("VF_REPO") != "" {
		// a run against a scratch copy (seeded change, mutant): keep its replays out of /verif
		dir = filepath.Join(os.TempDir(), "vf-seed-replays", prop)
	}
	os.MkdirAll(dir, 0o755)
	name := strings.NewReplacer("/", "_", " ", "_").Replace(o.ID)
	p := filepath.Join(dir, fmt.Sprintf("%s-%x.json", name, h[:4]))
	os.WriteFile(p, b, 0o644)
	return p
}

const replayTestTmpl = `package %s

import (
	"fmt"
	"runtime/debug"
	"testing"

	nd "github.com/samaritan-proxy/samaritan/vfnd"
)

func TestVfReplay(t *testing.T) {
	defer func() {
		r := recover()
		switch x := r.(type) {
		case nil:
			fmt.Println("VF-REPLAY: no failure")
		case nd.AssumeFailed:
			fmt.Println("VF-REPLAY: assumption failed (replay values outside the harness's assumptions)")
		case nd.AssertFailed:
			fmt.Println("VF-REPRODUCED assert: " + x.Msg)
			t.Fail()
		default:
			fmt.Printf("VF-REPRODUCED panic: %%v\n", r)
			debug.PrintStack()
			t.Fail()
		}
	}()
	%s()
}
`

// nativeReplay compiles the harness natively against /repo and runs it with the model's values.
// Returns status: reproduced | not-reproduced | assume-failed | build-error.
func nativeReplay(path string, kind string) (string, string) {
	b, err := os.ReadFile(path)
	if err != nil {
		return "build-error", err.Error()
	}
	var rf replayFile
	if err := json.Unmarshal(b, &rf); err != nil {
		return "build-error", err.Error()
	}
	tmp, err := os.MkdirTemp("", "vf-replay-")
	if err != nil {
		return "build-error", err.Error()
	}
	defer os.RemoveAll(tmp)
	repl := map[string]string{filepath.Join(repoDir, "vfnd", "nd.go"): filepath.Join(verifDir, "vfnd", "nd.go")}
	pkgName := ""
	for _, f := range rf.Files {
		p := filepath.Join(verifDir, "harness", f)
		src, err := os.ReadFile(p)
		if err != nil {
			return "build-error", err.Error()
		}
		m := pkgDirective.FindSubmatch(src)
		dir := string(m[1])
		base := strings.TrimSuffix(filepath.Base(p), ".go")
		parent := filepath.Base(filepath.Dir(p))
		repl[filepath.Join(repoDir, dir, "zz_vf_"+parent+"_"+base+".go")] = p
		if dir == rf.Pkg {
			for _, l := range strings.Split(string(src), "\n") {
				if strings.HasPrefix(l, "package ") {
					pkgName = strings.TrimSpace(strings.TrimPrefix(l, "package "))
					break
				}
			}
		}
	}
	testFile := filepath.Join(tmp, "replay_test.go")
	os.WriteFile(testFile, []byte(fmt.Sprintf(replayTestTmpl, pkgName, rf.Fn)), 0o644)
	repl[filepath.Join(repoDir, rf.Pkg, "zz_vf_replay_test.go")] = testFile
	ovb, _ := json.Marshal(map[string]interface{}{"Replace": repl})
	ovf := filepath.Join(tmp, "overlay.json")
	os.WriteFile(ovf, ovb, 0o644)
	cmd := exec.Command("go", "test", "-v", "-vet=off", "-count=1", "-timeout", "25s", "-overlay", ovf, "-run", "^TestVfReplay$", "./"+rf.Pkg)
	cmd.Dir = repoDir
	cmd.Env = append(os.Environ(), "GOFLAGS=-mod=mod", "GOPROXY=off", "GOSUMDB=off", "GOTOOLCHAIN=local", "VF_REPLAY="+path)
	out, _ := cmd.CombinedOutput()
	txt := string(out)
	if strings.Contains(txt, "flag provided but not defined: -test.") {
		// the package under test parses os.Args itself while it is initialised (cmd/samaritan/flag)
		// and rejects the flags `go test` passes to the test binary: build the test binary and
		// run it without any argument (it then runs its only test, the replay)
		bin := filepath.Join(tmp, "replay.test")
		bc := exec.Command("go", "test", "-c", "-vet=off", "-overlay", ovf, "-o", bin, "./"+rf.Pkg)
		bc.Dir = repoDir
		bc.Env = cmd.Env
		if bout, err := bc.CombinedOutput(); err != nil {
			return "build-error", tail(string(bout), 3000)
		}
		ctx, cancel := context.WithTimeout(context.Background(), 25*time.Second)
		defer cancel()
		rc := exec.CommandContext(ctx, bin)
		rc.Dir = filepath.Join(repoDir, rf.Pkg)
		rc.Env = cmd.Env
		out, _ = rc.CombinedOutput()
		txt = string(out)
		if ctx.Err() != nil {
			txt += "\ntest timed out"
		}
	}
	switch {
	case strings.Contains(txt, "VF-REPRODUCED"):
		i := strings.Index(txt, "VF-REPRODUCED")
		return "reproduced", tail(txt[i:], 4000)
	case strings.Contains(txt, "VF-REPLAY: no failure"):
		return "not-reproduced", "harness ran to completion natively"
	case strings.Contains(txt, "VF-REPLAY: assumption failed"):
		return "assume-failed", "replay values violate a harness assumption natively"
	case kind == "deadlock" && (strings.Contains(txt, "test timed out") || strings.Contains(txt, "all goroutines are asleep")):
		return "reproduced", "native run blocked forever (test timeout): " + firstLine(txt)
	case strings.Contains(txt, "panic:") || strings.Contains(txt, "fatal error:"):
		i := strings.Index(txt, "panic:")
		if i < 0 {
			i = strings.Index(txt, "fatal error:")
		}
		return "reproduced", tail(txt[i:], 4000)
	}
	return "build-error", tail(txt, 3000)
}

func cmdReplay(args []string) int {
	if len(args) < 1 {
		fmt.Fprintln(os.Stderr, "usage: vf replay <file>")
		return 2
	}
	var rf replayFile
	if abs, err := filepath.Abs(args[0]); err == nil {
		args[0] = abs
	}
	b, _ := os.ReadFile(args[0])
	json.Unmarshal(b, &rf)
	st, detail := nativeReplay(args[0], rf.Kind)
	fmt.Printf("replay %s: %s\n%s\n", args[0], st, detail)
	if st == "reproduced" {
		fmt.Printf("VIOLATION property=%s replay=%s\n", rf.Property, args[0])
		return 1
	}
	if st == "not-reproduced" {
		return 0
	}
	return 2
}
