//vf:pkg proc/redis
package redis

import (
	nd "github.com/samaritan-proxy/samaritan/vfnd"
)

// A model of Redis Cluster nodes, as small as the property needs: two nodes A and B, one slot S
// (the slot of the keys "{t}a" and "{t}b") that is migrated from its owner to the other node in the
// four steps of the Redis Cluster specification, and a second slot (key "q") that stays on B.
//
//   - a node that does not own the slot answers -MOVED <slot> <owner>, unless the slot is being
//     imported there and the connection sent ASKING right before the command;
//   - the owner of a slot being migrated answers -ASK <slot> <target> for a key it does not hold;
//   - ASKING is a one-shot flag of the connection.
//
// Keys are held in arrays indexed by key number so that "the key is on this node" can be a symbolic
// fact (the executor forks on it only where the node model looks at it).

const vfNKeys = 3

var vfCKeys = [vfNKeys]string{"{t}a", "{t}b", "q"}

type vfKV struct {
	has [vfNKeys]bool
	val [vfNKeys][]byte
}

type vfCNode struct {
	addr   string
	kv     vfKV
	asking bool
	execs  int // commands executed (not redirected)
}

type vfCluster struct {
	a, b      *vfCNode
	owner     *vfCNode // owner of slot S
	migrating bool     // owner: slot S is MIGRATING to the other node
	importing bool     // other node: slot S is IMPORTING
	slotS     int
	redirects int // MOVED / ASK answers given by the nodes
	slotQ     int
}

func (cl *vfCluster) other(n *vfCNode) *vfCNode {
	if n == cl.a {
		return cl.b
	}
	return cl.a
}

func vfKeyNo(k []byte) int {
	for i := 0; i < vfNKeys; i++ {
		if string(k) == vfCKeys[i] {
			return i
		}
	}
	return -1
}

// vfExecKV executes one single-key command on a key/value store the way Redis does.
func vfExecKV(kv *vfKV, cmd string, args []RespValue) *RespValue {
	k := vfKeyNo(args[1].Text)
	if k < 0 {
		return newError("ERR model: unknown key")
	}
	switch cmd {
	case "get":
		if !kv.has[k] {
			return newNullBulkString()
		}
		return newBulkBytes(kv.val[k])
	case "set":
		kv.has[k], kv.val[k] = true, args[2].Text
		return newSimpleString("OK")
	case "append":
		var nv []byte
		if kv.has[k] {
			nv = append(nv, kv.val[k]...)
		}
		nv = append(nv, args[2].Text...)
		kv.has[k], kv.val[k] = true, nv
		return newInteger(int64(len(nv)))
	case "del":
		if kv.has[k] {
			kv.has[k], kv.val[k] = false, nil
			return newInteger(1)
		}
		return newInteger(0)
	case "exists":
		if kv.has[k] {
			return newInteger(1)
		}
		return newInteger(0)
	}
	return newError("ERR model: unknown command")
}

func vfItoa(i int) string {
	if i == 0 {
		return "0"
	}
	var b []byte
	for ; i > 0; i /= 10 {
		b = append([]byte{byte('0' + i%10)}, b...)
	}
	return string(b)
}

// exec is what node n answers to one request arriving on the proxy's connection to it.
func (cl *vfCluster) exec(n *vfCNode, body *RespValue) *RespValue {
	cmd := string(vfLowerASCII(body.Array[0].Text))
	if cmd == "asking" {
		n.asking = true
		return newSimpleString("OK")
	}
	asking := n.asking
	n.asking = false
	k := vfKeyNo(body.Array[1].Text)
	if k < 0 {
		return newError("ERR model: unknown key")
	}
	if k == 2 { // slot Q: stable on B
		if n != cl.b {
			cl.redirects++
			return newError("MOVED " + vfItoa(cl.slotQ) + " " + cl.b.addr)
		}
	} else if n == cl.owner {
		if cl.migrating && !n.kv.has[k] {
			cl.redirects++
			return newError("ASK " + vfItoa(cl.slotS) + " " + cl.other(n).addr)
		}
	} else if !(cl.importing && asking) {
		cl.redirects++
		return newError("MOVED " + vfItoa(cl.slotS) + " " + cl.owner.addr)
	}
	n.execs++
	return vfExecKV(&n.kv, cmd, body.Array)
}

// vfRefCommand is the single Redis server: multi-key commands are their per-key commands combined
// in argument order.
func vfRefCommand(ref *vfKV, body *RespValue) *RespValue {
	cmd := string(vfLowerASCII(body.Array[0].Text))
	switch cmd {
	case "mget":
		out := make([]RespValue, 0, len(body.Array)-1)
		for i := 1; i < len(body.Array); i++ {
			out = append(out, *vfExecKV(ref, "get", []RespValue{body.Array[0], body.Array[i]}))
		}
		return newArray(out...)
	case "mset":
		for i := 1; i+1 < len(body.Array); i += 2 {
			vfExecKV(ref, "set", []RespValue{body.Array[0], body.Array[i], body.Array[i+1]})
		}
		return newSimpleString("OK")
	case "del", "exists":
		var sum int64
		for i := 1; i < len(body.Array); i++ {
			sum += vfExecKV(ref, cmd, []RespValue{body.Array[0], body.Array[i]}).Int
		}
		return newInteger(sum)
	}
	return vfExecKV(ref, cmd, body.Array)
}

// vfPerKeyCommands is the number of per-key commands a client command stands for.
func vfPerKeyCommands(body *RespValue) int {
	switch string(vfLowerASCII(body.Array[0].Text)) {
	case "mget", "del", "exists":
		return len(body.Array) - 1
	case "mset":
		return (len(body.Array) - 1) / 2
	}
	return 1
}

func vfSameReply(got, want *RespValue) bool {
	if got == nil || got.Type != want.Type {
		return false
	}
	switch want.Type {
	case Integer:
		return got.Int == want.Int
	case Array:
		if len(got.Array) != len(want.Array) {
			return false
		}
		for i := range want.Array {
			if !vfSameReply(&got.Array[i], &want.Array[i]) {
				return false
			}
		}
		return true
	}
	if (got.Text == nil) != (want.Text == nil) {
		return false
	}
	return vfBytesEq(got.Text, want.Text)
}

// VfC04_Migration: a history of `steps` events — a client command through the real handleRequest
// (GET, SET, APPEND, DEL, EXISTS, MGET, MSET over the keys of the migrating slot and a key of a
// stable slot), the next step of the slot's migration (importing at the target, migrating at the
// owner, moving one key, finalising ownership; then back again), or a completed routing-table
// refresh — starting from a symbolic placement of the keys and a routing table that may be stale.
// The backends are the node model above, answered through the real client.handleResp ->
// handleRedirection -> MakeRequestToHost path. Every reply equals the reply of a single server
// executing the same commands; no MOVED/ASK reaches the client; each command is executed exactly
// once on the node that accepts it, and at the end the nodes together hold exactly the single
// server's data.
func VfC04_Migration() {
	nd.ConcreteClock(true)
	aAddr, bAddr := "10.0.0.1:7000", "10.0.0.2:7000"
	p, clients := vfNewProc(nil, aAddr, bAddr)
	for _, c := range clients {
		c.onRedirection = p.u.handleRedirection
		c.onClusterDown = p.u.handleClusterDown
	}
	cl := &vfCluster{a: &vfCNode{addr: aAddr}, b: &vfCNode{addr: bAddr}}
	cl.slotS, cl.slotQ = vfSlotOfKey(vfCKeys[0]), vfSlotOfKey(vfCKeys[2])
	nd.Assert(vfSlotOfKey(vfCKeys[1]) == cl.slotS && cl.slotQ != cl.slotS, "harness: the two tagged keys share a slot, q has another")
	// an arbitrary valid state of one migration A -> B (by symmetry the owner is A; what the proxy
	// believes is a separate choice below): nothing started, target importing, or both flags set
	// with each key still on A or already moved to B
	cl.owner = cl.a
	// (3: the flags were set in the other order — the owner already redirects absent keys with ASK
	// while the target does not import yet and answers MOVED back; the chain of redirections ends
	// when the target starts importing, which happens after a symbolic number of bounces)
	phase := nd.Concrete(nd.Choice("phase", 4))
	cl.importing, cl.migrating = phase == 1 || phase == 2, phase >= 2
	var ref vfKV
	for k := 0; k < 2; k++ {
		nloc := 2
		if cl.migrating && cl.importing {
			nloc = 3
		}
		loc := nd.Concrete(nd.Choice("location", nloc)) // 0 absent, 1 on the owner, 2 already moved
		if loc == 0 {
			continue
		}
		v := nd.Bytes("v0", 1)
		ref.has[k], ref.val[k] = true, v
		n := cl.a
		if loc == 2 {
			n = cl.b
			nd.Cover("half-migrated")
		}
		n.kv.has[k], n.kv.val[k] = true, v
	}
	vq := nd.Bytes("vq", 1)
	ref.has[2], ref.val[2] = true, vq
	cl.b.kv.has[2], cl.b.kv.val[2] = true, vq
	// the proxy's table: the truth, or stale for slot S (as left behind by an earlier migration)
	p.u.slots[cl.slotQ] = &instance{Addr: bAddr}
	if nd.Bool("table-is-stale") {
		p.u.slots[cl.slotS] = &instance{Addr: bAddr}
		nd.Cover("stale-table")
	} else {
		p.u.slots[cl.slotS] = &instance{Addr: aAddr}
	}
	nd.PanicLabel("migration")
	steps := nd.Param("steps", 3)
	total := 0 // commands a single server would have executed, per key command
	for s := 0; s < steps; s++ {
		switch nd.Concrete(nd.Choice("event", 3)) {
		case 1: // next migration step
			tgt := cl.other(cl.owner)
			switch {
			case !cl.importing:
				cl.importing = true
			case !cl.migrating:
				cl.migrating = true
				nd.Cover("migration-started")
			default:
				// MIGRATE one key that is still on the owner, or finalise when none is left
				moved := false
				first := nd.Concrete(nd.Choice("move", 2))
				for _, k := range []int{first, 1 - first} {
					if !moved && cl.owner.kv.has[k] {
						tgt.kv.has[k], tgt.kv.val[k] = true, cl.owner.kv.val[k]
						cl.owner.kv.has[k], cl.owner.kv.val[k] = false, nil
						moved = true
						nd.Cover("key-moved")
					}
				}
				if !moved {
					cl.owner, cl.migrating, cl.importing = tgt, false, false
					nd.Cover("finalised")
				}
			}
			continue
		case 2: // a routing-table refresh completed
			p.u.slots[cl.slotS] = &instance{Addr: cl.owner.addr}
			continue
		}
		// a client command
		var body *RespValue
		ka, kb, kq := vfCKeys[0], vfCKeys[1], vfCKeys[2]
		k1 := []string{ka, kb}[nd.Concrete(nd.Choice("key", 2))]
		switch nd.Concrete(nd.Choice("cmd", 7)) {
		case 0:
			body = newStringArray("get", k1)
		case 1:
			body = newArray(*newBulkString("set"), *newBulkString(k1), *newBulkBytes(nd.Bytes("v", 1)))
		case 2:
			body = newArray(*newBulkString("append"), *newBulkString(k1), *newBulkBytes(nd.Bytes("v", 1)))
		case 3:
			nd.Assume(k1 == ka)
			body = newStringArray("del", ka, kb)
		case 4:
			nd.Assume(k1 == ka)
			body = newStringArray("exists", kb, kq)
		case 5:
			nd.Assume(k1 == ka)
			body = newStringArray("mget", ka, kq, kb)
		case 6:
			nd.Assume(k1 == ka)
			body = newArray(*newBulkString("mset"), *newBulkString(kb), *newBulkBytes(nd.Bytes("v", 1)),
				*newBulkString(kq), *newBulkBytes(nd.Bytes("w", 1)))
		}
		want := vfRefCommand(&ref, body)
		total += vfPerKeyCommands(body)
		raw := newRawRequest(body)
		stable := !cl.migrating && !cl.importing && p.u.slots[cl.slotS].Addr == cl.owner.addr
		before := cl.redirects
		p.handleRequest(raw)
		// the nodes answer what reached them, in arrival order per connection, until nothing is pending
		for round := 0; round < 8 && !vfDone(raw.done); round++ {
			if cl.migrating && !cl.importing && round >= 1 && (round == 6 || nd.Bool("target-starts-importing-now")) {
				cl.importing = true
				nd.Note("bounces-before-importing", round)
				if round >= 3 {
					nd.Cover("long-redirection-chain")
				}
			}
			for _, n := range []*vfCNode{cl.a, cl.b} {
				c := clients[n.addr]
				for r := vfTake(c); r != nil; r = vfTake(c) {
					c.handleResp(r, cl.exec(n, r.Body()))
				}
			}
		}
		nd.Assert(vfDone(raw.done), "every command is answered while all nodes are reachable")
		if !vfDone(raw.done) {
			return
		}
		got := raw.Response()
		if got.Type == Error {
			nd.Assert(!vfHasPrefix(vfLowerASCII(got.Text), "moved") && !vfHasPrefix(vfLowerASCII(got.Text), "ask"), "the client never receives a MOVED or ASK error")
		}
		nd.Assert(vfSameReply(got, want), "the reply equals the reply of a single Redis server, during every phase of a migration")
		nd.Assert(vfForwarded(clients) == 0, "nothing is left behind on any backend connection")
		nd.Assert(cl.a.execs+cl.b.execs == total, "each per-key command is executed exactly once on the node that accepts it")
		// request statistics are conserved whatever number of redirections the command went through
		d, us := p.stats.Downstream, p.u.stats
		nd.Assert(d.RqTotal.Value() == d.RqSuccessTotal.Value()+d.RqFailureTotal.Value(), "downstream total requests = success + failure at quiescence")
		nd.Assert(us.RqTotal.Value() == us.RqSuccessTotal.Value()+us.RqFailureTotal.Value(), "upstream total requests = success + failure at quiescence")
		if h, ok := p.findHandler(string(body.Array[0].Text)); ok {
			nd.Assert(h.stats.Total.Value() == h.stats.Success.Value()+h.stats.Error.Value(), "per-command total = success + error at quiescence")
		}
		if stable {
			nd.Assert(cl.redirects == before, "with a loaded routing table and a stable layout no command is redirected")
			nd.Cover("stable-layout")
		}
		if cl.migrating {
			nd.Cover("command-during-migration")
		}
	}
	// the nodes together hold exactly what the single server holds, each key on one node
	for k := 0; k < vfNKeys; k++ {
		onA, onB := cl.a.kv.has[k], cl.b.kv.has[k]
		nd.Assert(!(onA && onB), "no key ends up on two nodes")
		nd.Assert((onA || onB) == ref.has[k], "no write is lost and no deleted key survives")
		if onA && ref.has[k] {
			nd.Assert(vfBytesEq(cl.a.kv.val[k], ref.val[k]), "the stored value is the single server's value (effect neither lost nor duplicated)")
		}
		if onB && ref.has[k] {
			nd.Assert(vfBytesEq(cl.b.kv.val[k], ref.val[k]), "the stored value is the single server's value (effect neither lost nor duplicated)")
		}
	}
}
