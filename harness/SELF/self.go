//vf:pkg proc/redis
package redis

import (
	"bytes"
	"fmt"
	"sort"
	"strconv"
	"strings"

	nd "github.com/samaritan-proxy/samaritan/vfnd"
)

// Translator validation ("vf selftest"): concrete vectors — the repository's own test inputs and
// one vector per Go→SMT rule of DESIGN Part II appendix E — are pushed through the real functions
// under the executor. Every expectation below is what the native build computes (they are the
// repository's tests' expectations or Go language facts); an executor that disagrees reports a
// counterexample that the native replay does not reproduce, i.e. an ENCODING-MISMATCH.

func VfSelf_Language() {
	// integer semantics
	var i8 int8 = -128
	nd.Assert(i8>>7 == -1 && uint8(nd.Concrete(200))<<1 == 144 && int8(int(nd.Concrete(200))) == -56, "shifts and narrowing conversions")
	a, b := nd.Concrete(-7), nd.Concrete(2)
	nd.Assert(a/b == -3 && a%b == -1 && uint16(nd.Concrete(65535))+uint16(nd.Concrete(1)) == 0, "signed division truncates, unsigned wraps")
	var u32 uint32 = 1
	nd.Assert(u32<<uint(nd.Concrete(40)) == 0 && int64(nd.Concrete(-1))>>uint(nd.Concrete(70)) == -1, "over-wide shift counts")
	nd.Assert(uint64(int64(nd.Concrete(-1))) == ^uint64(0) && int64(uint32(nd.Concrete(0xffffffff))) == 4294967295, "sign and zero extension")
	// slices: aliasing through append within capacity, growth copies, memmove semantics of copy
	s := make([]int, 1, 2)
	t := append(s, 1)
	u := append(s, 2)
	nd.Assert(t[1] == 2 && u[1] == 2 && len(s) == 1, "append within capacity aliases")
	v := append(u, 3)
	v[0] = 9
	nd.Assert(u[0] == 0 && len(v) == 3, "append beyond capacity copies")
	w := []byte("abcdef")
	copy(w[2:], w[:4])
	nd.Assert(string(w) == "ababcd", "overlapping copy behaves like memmove")
	x := w[1:3:4]
	nd.Assert(len(x) == 2 && cap(x) == 3, "three-index slice")
	// strings
	nd.Assert("abc" < "abd" && "ab" < "abc" && !("b" < "abc") && "a"+"b" == "ab", "string comparison and concatenation")
	nd.Assert(strings.ToLower("HGetAll") == "hgetall" && string(bytes.ToLower([]byte("MOVED"))) == "moved" && bytes.EqualFold([]byte("Ask"), []byte("ASK")), "case summaries")
	parts := strings.Split("MOVED 3999 127.0.0.1:6381", " ")
	nd.Assert(len(parts) == 3 && parts[2] == "127.0.0.1:6381" && len(strings.Fields("  a b\tc \n")) == 3, "Split and Fields")
	nd.Assert(strings.HasPrefix("[1-<-x]", "[") && strings.HasSuffix("[1-<-x]", "]") && bytes.IndexByte([]byte("ab\ncd"), '\n') == 2, "prefix/suffix/IndexByte")
	n, err := strconv.ParseInt("-9223372036854775808", 10, 64)
	_, err2 := strconv.ParseInt("9223372036854775808", 10, 64)
	nd.Assert(err == nil && n == -9223372036854775808 && err2 != nil && strconv.FormatInt(-120, 10) == "-120" && strconv.FormatUint(1<<48, 10) == "281474976710656", "strconv")
	at, err3 := strconv.Atoi("16383")
	nd.Assert(err3 == nil && at == 16383, "Atoi")
	nd.Assert(fmt.Sprintf("ERR unsupported command '%s'", "x\ty") == "ERR unsupported command 'x\ty'" && fmt.Sprintf("%s:%d", "10.0.0.1", uint32(80)) == "10.0.0.1:80", "Sprintf summary")
	keys := []string{"b:1", "a:2", "a:1"}
	sort.Strings(keys)
	nd.Assert(keys[0] == "a:1" && keys[1] == "a:2" && keys[2] == "b:1", "sort.Strings")
	type kv struct {
		k string
		v int
	}
	kvs := []kv{{"c", 2}, {"a", 2}, {"b", 1}, {"d", 1}}
	sort.SliceStable(kvs, func(i, j int) bool { return kvs[i].v < kvs[j].v })
	nd.Assert(kvs[0].k == "b" && kvs[1].k == "d" && kvs[2].k == "c" && kvs[3].k == "a", "sort.SliceStable model (multi-cell elements, stability)")
	nd.Assert(sort.SliceIsSorted(kvs, func(i, j int) bool { return kvs[i].v < kvs[j].v }) && !sort.SliceIsSorted(kvs, func(i, j int) bool { return kvs[i].k < kvs[j].k }), "sort.SliceIsSorted model")
	// maps, defers, recover, channels, select
	m := map[string]int{"a": 1}
	m["b"] = 2
	delete(m, "a")
	_, okA := m["a"]
	nd.Assert(len(m) == 1 && !okA && m["b"] == 2 && m["zz"] == 0, "maps")
	order := ""
	func() {
		defer func() { order += "1" }()
		defer func() {
			if r := recover(); r != nil {
				order += "r"
			}
		}()
		defer func() { order += "3" }()
		panic("boom") // recovered by the deferred function (run-time panics are reported where they occur: the repository never recovers)
	}()
	nd.Assert(order == "3r1", "defers run LIFO and recover stops a panic")
	ch := make(chan int, 2)
	ch <- 1
	ch <- 2
	sel := 0
	select {
	case ch <- 3:
		sel = 1
	default:
		sel = 2
	}
	close(ch)
	v1, ok1 := <-ch
	<-ch
	v3, ok3 := <-ch
	nd.Assert(sel == 2 && v1 == 1 && ok1 && v3 == 0 && !ok3, "buffered channels, select default, receive from closed")
	var iface interface{} = newInteger(1)
	_, isResp := iface.(*RespValue)
	_, isStr := iface.(fmt.Stringer)
	nd.Assert(isResp && isStr, "type assertions to concrete and interface types")
}

func VfSelf_RepoVectors() {
	// util: CRC16/XMODEM check value and hash tags (Redis Cluster specification examples)
	nd.Assert(crc16([]byte("123456789")) == 0x31C3, "crc16 check value")
	nd.Assert(string(hashtag([]byte("{user1000}.following"))) == "user1000" && string(hashtag([]byte("foo{}{bar}"))) == "foo{}{bar}" &&
		string(hashtag([]byte("foo{{bar}}zap"))) == "{bar" && string(hashtag([]byte("foo{bar}{zap}"))) == "bar", "hash tag examples of the cluster specification")
	// codec_test.go: TestBtoi64 / TestItoa domain, TestDecoder inputs, inline inputs
	for _, i := range []int64{-128, -1, 0, 7, 9, 10, 99, 1000, 32768, 32769, 123456789, -987654321} {
		bs := []byte(strconv.FormatInt(i, 10))
		got, err := btoi64(bs)
		nd.Assert(err == nil && got == i && itoa(i) == string(bs), "btoi64 / itoa on the test table")
	}
	_, e1 := btoi64([]byte("12a"))
	_, e2 := btoi64([]byte(""))
	p5, e3 := btoi64([]byte("+5"))
	nd.Assert(e1 != nil && e2 != nil && e3 == nil && p5 == 5, "btoi64 error cases")
	for _, s := range []string{"$6\r\nfoobar\r\n", "$0\r\n\r\n", "$-1\r\n", "*0\r\n", "*2\r\n$3\r\nfoo\r\n$3\r\nbar\r\n", "*3\r\n:1\r\n:2\r\n:3\r\n", "*-1\r\n", "+OK\r\n", "-Error message\r\n", "*2\r\n$1\r\n0\r\n*0\r\n",
		"*3\r\n$4\r\nEVAL\r\n$31\r\nreturn {1,2,{3,'Hello World!'}}\r\n$1\r\n0\r\n"} {
		dec := newDecoder(bytes.NewReader([]byte(s)), 8192)
		v, err := dec.Decode()
		nd.Assert(err == nil, "TestDecoder inputs decode")
		var out bytes.Buffer
		enc := newEncoder(&out, 64)
		nd.Assert(enc.Encode(v) == nil && enc.Flush() == nil && out.String() == s, "and re-encode to the same bytes")
	}
	for _, s := range []string{"hello world\r\n", "hello world    \r\n", "    hello     world    \r\n"} {
		a, err := newDecoder(bytes.NewReader([]byte(s)), 8192).Decode()
		nd.Assert(err == nil && len(a.Array) == 2 && string(a.Array[0].Text) == "hello" && string(a.Array[1].Text) == "world", "TestDecodeInlineString inputs")
	}
	for _, s := range []string{"\r\n", "\r", "\n", " \n", "$5\r\nab\r\n", "*1\r\n", ":12a\r\n"} {
		_, err := newDecoder(bytes.NewReader([]byte(s)), 8192).Decode()
		nd.Assert(err != nil, "invalid inputs are rejected")
	}
	// slot_test.go
	sl, err := parseClusterNodesSlot([]string{"1", "3-6", "100", "[233-<-importing_from_node_id]"})
	nd.Assert(err == nil && len(sl) == 6 && sl[0] == 1 && sl[4] == 6 && sl[5] == 100, "TestParseClusterNodesSlot")
	_, err = parseClusterNodesSlot([]string{"ab"})
	nd.Assert(err != nil, "TestParseClusterNodesSlot error case")
	insts, err := parseClusterNodes(vfRedis3Sample)
	nd.Assert(err == nil && len(insts) == 4, "TestParseClusterNodes: four masters")
	for _, in := range insts {
		nd.Assert(len(in.Replicas) == 1 && len(in.Slots) == 4096 && in.MasterID == "", "each master has one replica and 4096 slots")
	}
	// request_test.go: cursor packing
	r := &scanRequest{}
	idx, cur := r.parseCursor(281474976710657)
	nd.Assert(idx == 1 && cur == 1 && r.genCursor(1, 1) == 281474976710657 && r.genCursor(0, 123) == 123, "TestScanRequestGenCursor / ParseCursor")
	// handler table built by the package initialiser and initCommandHandlers
	_, ro := readOnlyCommands["get"]
	_, rw := readOnlyCommands["set"]
	nd.Assert(ro && !rw && len(simpleCommands) > 100, "tables built by the package initialiser")
	nd.Cover("vectors-done")
}

const vfRedis3Sample = `ffffffffffffffffffff00000000980000000822 10.101.90.224:7017 master - 0 1528688887753 7 connected 12288-16383
ffffffffffffffffffff00000000980000000820 10.101.90.227:7000 master - 0 1528688888260 11 connected 4096-8191
ffffffffffffffffffff00000000980000000819 10.101.90.227:7001 slave ffffffffffffffffffff00000000980000000816 0 1528688885722 45 connected
ffffffffffffffffffff00000000980000000818 10.101.90.228:7001 master - 0 1528688884715 3 connected 8192-12287
ffffffffffffffffffff00000000980000000821 10.101.90.224:7016 slave ffffffffffffffffffff00000000980000000818 0 1528688886734 3 connected
ffffffffffffffffffff00000000980000000816 10.101.90.226:7028 myself,master - 0 0 45 connected 0-4095
ffffffffffffffffffff00000000980000000815 10.101.90.226:7029 slave ffffffffffffffffffff00000000980000000820 0 1528688883704 11 connected
ffffffffffffffffffff00000000980000000817 10.101.90.228:7000 slave ffffffffffffffffffff00000000980000000822 0 1528688882695 7 connected
`
