//vf:pkg cmd/samaritan/hotrestart
package hotrestart

import (
	"io"
	"net"
	"os"
	"syscall"
	"time"

	nd "github.com/samaritan-proxy/samaritan/vfnd"
)

// vfPeer is the other end of a control connection. Under the executor the three UnixConn methods
// used by the code under test are replaced by the vf* functions below, which serve a script of
// reads (one entry per ReadMsgUnix call, as a stream socket may deliver) and record writes.
// Natively the connection is a real AF_UNIX stream socket pair and the script is played by a
// goroutine (one write per scripted read, paced by the replies).
type vfPeer struct {
	reads  [][]byte
	rn     []int
	expect []bool // native pacing: a reply is expected after this read
	pos    int
	wrote  [][]byte
	closed bool
	extra  int // reads attempted after the script ended
	peer   *net.UnixConn
}

var vfPeers = map[*net.UnixConn]*vfPeer{}

func vfNewConn() (*net.UnixConn, *vfPeer) {
	p := &vfPeer{}
	var c *net.UnixConn
	if nd.Symbolic() {
		c = new(net.UnixConn)
		nd.Replace("(*net.UnixConn).ReadMsgUnix", vfReadMsgUnix)
		nd.Replace("(*net.UnixConn).WriteMsgUnix", vfWriteMsgUnix)
		nd.Replace("(*net.UnixConn).Close", vfCloseUnix)
		// plain Read / Write of the connection (methods of the embedded net.conn, whose first and
		// only field placement makes its address the UnixConn's address)
		nd.Replace("(*net.conn).Read", vfReadUnix)
		nd.Replace("(*net.conn).Write", vfWriteUnix)
		nd.Replace("(*net.conn).Close", vfCloseUnix)
	} else {
		fds, err := syscall.Socketpair(syscall.AF_UNIX, syscall.SOCK_STREAM, 0)
		if err != nil {
			panic(err)
		}
		mk := func(fd int) *net.UnixConn {
			f := os.NewFile(uintptr(fd), "vf")
			fc, err := net.FileConn(f)
			if err != nil {
				panic(err)
			}
			f.Close()
			return fc.(*net.UnixConn)
		}
		c, p.peer = mk(fds[0]), mk(fds[1])
	}
	vfPeers[c] = p
	return c, p
}

func (p *vfPeer) script(b []byte, n int, expectReply bool) {
	p.reads = append(p.reads, b)
	p.rn = append(p.rn, n)
	p.expect = append(p.expect, expectReply)
}

// play (native only) writes the scripted reads to the socket, then closes it.
func (p *vfPeer) play() {
	if nd.Symbolic() {
		return
	}
	go func() {
		for i, b := range p.reads {
			if p.rn[i] > 0 {
				p.peer.Write(b[:p.rn[i]])
			}
			if p.expect[i] {
				buf := make([]byte, 4096)
				p.peer.SetReadDeadline(time.Now().Add(500 * time.Millisecond))
				n, _ := p.peer.Read(buf)
				p.wrote = append(p.wrote, buf[:n])
			} else {
				time.Sleep(30 * time.Millisecond)
			}
		}
		p.peer.Close()
	}()
}

func vfReadMsgUnix(c *net.UnixConn, b, oob []byte) (n, oobn, flags int, addr *net.UnixAddr, err error) {
	p := vfPeers[c]
	if p.closed {
		return 0, 0, 0, nil, &net.OpError{Op: "read", Net: "unix", Err: os.ErrClosed}
	}
	if p.pos >= len(p.reads) {
		p.extra++
		nd.Assert(p.extra <= 2, "reading stops after the child has disconnected")
		return 0, 0, 0, nil, &net.OpError{Op: "read", Net: "unix", Err: io.EOF}
	}
	n = p.rn[p.pos]
	nd.CopyN(b, p.reads[p.pos], n)
	p.pos++
	return n, 0, 0, nil, nil
}

// vfReadUnix / vfWriteUnix: the connection's plain Read and Write. As for every net.Conn, the end of
// the stream is the bare io.EOF (not wrapped in a *net.OpError, unlike ReadMsgUnix).
func vfReadUnix(c *net.UnixConn, b []byte) (int, error) {
	n, _, _, _, err := vfReadMsgUnix(c, b, nil)
	if oe, ok := err.(*net.OpError); ok && oe.Err == io.EOF {
		return 0, io.EOF
	}
	return n, err
}

func vfWriteUnix(c *net.UnixConn, b []byte) (int, error) {
	n, _, err := vfWriteMsgUnix(c, b, nil, nil)
	return n, err
}

func vfWriteMsgUnix(c *net.UnixConn, b, oob []byte, addr *net.UnixAddr) (n, oobn int, err error) {
	p := vfPeers[c]
	cp := make([]byte, len(b))
	copy(cp, b)
	p.wrote = append(p.wrote, cp)
	return len(b), 0, nil
}

func vfCloseUnix(c *net.UnixConn) error {
	vfPeers[c].closed = true
	return nil
}

// VfC17_ReadFrame: readMessage on an arbitrary delivery of n bytes never panics, and whatever it
// accepts is exactly the frame that was carried.
func VfC17_ReadFrame() {
	maxn := nd.Param("maxn", 48)
	n := nd.IntRange("n", 0, maxn)
	data := nd.Bytes("d", maxn)
	c, p := vfNewConn()
	p.script(data, n, false)
	p.play()
	nd.PanicLabel("readMessage")
	msg, err := readMessage(c)
	declared := int(data[1])<<8 | int(data[2])
	if err == nil {
		nd.Cover("accepted")
		nd.Class("len-one-past-carried", 3+int(msg.Len) == n+1)
		nd.Assert(3+int(msg.Len) <= n, "accepted frame's payload lies inside the received bytes")
		nd.Assert(len(msg.Data) == int(msg.Len), "length field equals payload length")
		nd.Assert(msg.Type == messageType(data[0]) && int(msg.Len) == declared, "type and big-endian length decoded from the header")
		i := nd.IntRange("i", 0, maxn)
		if i < int(msg.Len) && 3+i < n {
			nd.Assert(msg.Data[i] == data[3+i], "payload bytes are the carried bytes")
		}
	} else if n > 0 {
		nd.Cover("rejected")
		nd.Assert(n < 3 || 3+declared > n, "a complete frame is not rejected")
	}
}

// VfC17_RoundTrip: readMessage(sendMessage(m)) == m for every type, length and payload.
func VfC17_RoundTrip() {
	maxn := nd.Param("maxn", 24)
	typ := messageType(nd.Byte("t"))
	l := nd.IntRange("len", 0, maxn-3)
	payload := nd.Bytes("p", maxn-3)[:l]
	m := &message{Type: typ, Len: uint16(l), Data: payload}
	c, p := vfNewConn()
	nd.PanicLabel("roundtrip")
	err := sendMessage(c, m)
	nd.Assert(err == nil, "send succeeds")
	var c2 *net.UnixConn
	if nd.Symbolic() {
		nd.Assert(len(p.wrote) == 1, "one frame is one write")
		var p2 *vfPeer
		c2, p2 = vfNewConn()
		p2.script(p.wrote[0], len(p.wrote[0]), false)
	} else {
		c2 = p.peer
	}
	got, err := readMessage(c2)
	nd.Assert(err == nil, "a frame produced by sendMessage is accepted")
	if err == nil {
		nd.Assert(got.Type == typ && int(got.Len) == l && len(got.Data) == l, "type and length round-trip")
		i := nd.IntRange("i", 0, maxn)
		if i < l {
			nd.Cover("payload-byte")
			nd.Assert(got.Data[i] == payload[i], "payload round-trips")
		}
	}
}
