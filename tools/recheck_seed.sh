#!/bin/bash
# usage: recheck_seed.sh <seed id>  -- on the current /repo HEAD: does the patch still apply, and does the demo still fail with it?
id=$1; src=/verif/seeded/$id
export GOFLAGS=-mod=mod GOPROXY=off GOSUMDB=off GOTOOLCHAIN=local
wt=/tmp/recheck_wt/$id; mkdir -p /tmp/recheck_wt; rm -rf "$wt"
git -C /repo worktree add --detach "$wt" HEAD >/dev/null 2>&1 || { echo "$id worktree-failed"; exit 1; }
trap 'git -C /repo worktree remove --force "$wt" >/dev/null 2>&1' EXIT
cd "$wt"
git apply "$src/patch.diff" 2>/dev/null || { echo "$id PATCH-DOES-NOT-APPLY"; exit 0; }
go build ./... >/dev/null 2>&1 || { echo "$id BUILD-FAILS"; exit 0; }
demo_path=$(head -1 "$src/demo_path.txt" | tr -d '\r\n '); demo_cmd=$(head -1 "$src/demo_cmd.txt")
cp "$(ls $src/*.go | head -1)" "$demo_path"
if (timeout 300 bash -c "$demo_cmd") >/dev/null 2>&1; then echo "$id DEMO-PASSES-WITH-PATCH (neutralised)"; else echo "$id still-breaks"; fi
