//vf:pkg cmd/samaritan/hotrestart
package hotrestart

import (
	"syscall"

	nd "github.com/samaritan-proxy/samaritan/vfnd"
)

// vfInst records what the old process was asked to do.
type vfInst struct{ log []int }

const (
	vfAdmin = iota + 1
	vfLocalConf
	vfDrain
	vfShutdown
	vfKill
	vfReply // + reply type << 8
)

func (i *vfInst) ID() int            { return 1 }
func (i *vfInst) ParentID() int      { return 0 }
func (i *vfInst) ShutdownAdmin()     { i.log = append(i.log, vfAdmin) }
func (i *vfInst) DrainListeners()    { i.log = append(i.log, vfDrain) }
func (i *vfInst) ShutdownLocalConf() { i.log = append(i.log, vfLocalConf) }
func (i *vfInst) Shutdown()          { i.log = append(i.log, vfShutdown) }

// VfC17_Dispatch: a child sends a sequence of frames (well-formed requests of arbitrary type,
// truncated headers, frames declaring more than they carry), then disappears; then a second
// child completes a hand-over. Each request is performed once, in order, acknowledged with the
// matching reply (unknown -> unknownReply), terminate is acknowledged before the signal, bad frames
// change nothing, and the second child is served.
func VfC17_Dispatch() {
	k := nd.Param("frames", 3)
	inst := &vfInst{}
	r := &Restarter{Instance: inst, quit: make(chan struct{}), done: make(chan struct{})}
	var order []int // interleaving of actions and replies as observed
	oldKill := kill
	defer func() { kill = oldKill }()
	var peers []*vfPeer
	kill = func(pid int, sig syscall.Signal) error {
		n := 0
		for _, p := range peers {
			n += len(p.wrote)
		}
		order = append(order, vfKill|n<<8)
		return nil
	}
	var want []int      // expected instance calls
	var wantReply []int // expected reply types, in order, per child
	var wantReplies [][]int
	var killAfter []int // replies that must have been written when each termination signal is sent
	wf := 0             // well-formed requests so far (each gets exactly one reply)
	for child := 0; child < 2; child++ {
		c, p := vfNewConn()
		peers = append(peers, p)
		wantReply = nil
		nframes := k
		if child == 1 {
			nframes = 1
		}
		for f := 0; f < nframes; f++ {
			kind := nd.IntRange("kind", 0, 2)
			typ := nd.Byte("typ")
			switch kind {
			case 0: // well-formed request with the "{}" payload, or an empty payload
				empty := nd.Bool("empty")
				if empty {
					p.script([]byte{typ, 0, 0}, 3, true)
				} else {
					p.script([]byte{typ, 0, 2, '{', '}'}, 5, true)
				}
				wf++
				switch messageType(typ) {
				case shutdownAdminReq:
					want = append(want, vfAdmin)
					wantReply = append(wantReply, int(shutdownAdminReply))
				case shutdownLocalConfReq:
					want = append(want, vfLocalConf)
					wantReply = append(wantReply, int(shutdownLocalConfReply))
				case drainListenersReq:
					want = append(want, vfDrain)
					wantReply = append(wantReply, int(drainListenersReply))
				case terminateReq:
					want = append(want, vfKill)
					killAfter = append(killAfter, wf)
					wantReply = append(wantReply, int(terminateReply))
				default:
					wantReply = append(wantReply, int(unknownReply))
				}
			case 1: // truncated header
				p.script([]byte{typ, 0}, 2, false)
			case 2: // declares 4 payload bytes, carries 2
				p.script([]byte{typ, 0, 4, '{', '}'}, 5, false)
			}
		}
		wantReplies = append(wantReplies, wantReply)
		p.play()
		nd.PanicLabel("handleChild")
		r.handleChild(c) // returns when the child has disconnected
		nd.Quiesce()     // whatever the dispatcher left running finishes
	}
	// instance calls + kill, in request order
	got := append([]int(nil), inst.log...)
	_ = got
	// merge: instance log does not contain kill; rebuild the observed action order
	ai, ki := 0, 0
	for _, w := range want {
		if w == vfKill {
			nd.Assert(ki < len(order), "terminate request sends the termination signal")
			if ki < len(order) && ki < len(killAfter) {
				nd.Assert(order[ki]>>8 == killAfter[ki], "the terminate request is acknowledged before the process is signalled")
			}
			ki++
		} else {
			nd.Assert(ai < len(inst.log) && inst.log[ai] == w, "each requested step is performed once, in the order requested")
			ai++
		}
	}
	nd.Assert(ai == len(inst.log) && ki == len(order), "no step is performed that was not requested")
	for ci, p := range peers {
		wr := wantReplies[ci]
		nd.Assert(len(p.wrote) == len(wr), "exactly one acknowledgement per request, none for malformed frames")
		for i := 0; i < len(wr) && i < len(p.wrote); i++ {
			nd.Assert(len(p.wrote[i]) >= 3 && int(p.wrote[i][0]) == wr[i], "request is acknowledged with the matching reply (unknown -> unknown reply)")
		}
	}
	if len(wantReplies[1]) == 1 {
		nd.Cover("second-child-served")
	}
}
