//vf:pkg host
package host

import (
	nd "github.com/samaritan-proxy/samaritan/vfnd"
)

// Model kept by the harness: the current member per address, in the order callers see it.
type vfMember struct {
	h *Host
}

var vfAddrs = []string{"10.0.0.1:80", "10.0.0.2:80"}

// vfExpected computes what the property says Healthy() must return: the members currently marked
// healthy, of the preferred tier, sorted by address, no duplicates.
func vfExpected(members map[string]*Host) []*Host {
	var tier []*Host
	for _, want := range []Type{TypeMain, TypeBackup} {
		tier = nil
		for _, a := range vfAddrs { // vfAddrs is sorted
			if h, ok := members[a]; ok && h.Type == want && h.IsHealthy() {
				tier = append(tier, h)
			}
		}
		if len(tier) > 0 {
			return tier
		}
	}
	return nil
}

// VfC15_History: any history of Add / Remove / ReplaceAll / MarkHostHealthy / MarkHostUnhealthy
// (the way the controller and the health monitor call them: Add/Remove/ReplaceAll with freshly
// built host objects naming an address and a type, marks with host objects obtained from All()
// earlier — possibly no longer members) keeps Healthy() equal to the specification after every
// step, closes WaitRemoved of every host that stops being a member, and never reports a removed host.
func VfC15_History() {
	steps := nd.Param("steps", 3)
	set := NewSet()
	members := map[string]*Host{}
	var seen []*Host // every host object that was ever a member (what a monitor may still hold)
	var snaps []vfSnap
	nd.PanicLabel("host-set")
	for s := 0; s < steps; s++ {
		op := nd.Concrete(nd.IntRange("op", 0, 4))
		switch op {
		case 0, 1: // Add / Remove with a freshly built host for (addr, type)
			addr := vfAddrs[nd.Concrete(nd.Choice("addr", len(vfAddrs)))]
			typ := Type(nd.Concrete(nd.IntRange("type", int(TypeMain), int(TypeBackup))))
			h := NewWithType(addr, typ)
			if op == 0 && nd.Param("batches", 0) == 1 && nd.Bool("batch-of-two") {
				// one update announcing two endpoints, possibly the same address twice (types may differ)
				addr2 := vfAddrs[nd.Concrete(nd.Choice("addr2", len(vfAddrs)))]
				typ2 := Type(nd.Concrete(nd.IntRange("type2", int(TypeMain), int(TypeBackup))))
				h2 := NewWithType(addr2, typ2)
				olds := map[string]*Host{addr: members[addr], addr2: members[addr2]}
				set.Add(h, h2)
				for _, a := range []string{addr, addr2} {
					m := set.all[a]
					nd.Assert(m != nil && m.Addr == a, "after Add every announced address is a member")
					if m == nil {
						return
					}
					if a == addr2 {
						nd.Assert(m.Type == typ2 || (addr == addr2 && m.Type == typ), "the member has an announced type")
					}
					if old := olds[a]; old != nil && old != m {
						nd.Assert(vfRemoved(old), "a member replaced by a new announcement is signalled as removed")
					}
					members[a] = m
					seen = append(seen, m)
				}
			} else if op == 0 {
				old := members[addr]
				set.Add(h)
				// which object is the member after an address is announced again is the set's
				// choice (the fresh one or the old one); it must be one of them, of the
				// announced type, and an object that stops being the member is signalled
				m := set.all[addr]
				nd.Assert(m != nil && (m == h || m == old) && m.Addr == addr && m.Type == typ, "after Add the address is a member of the announced type")
				if m == nil {
					return
				}
				if old != nil && old != m {
					nd.Assert(vfRemoved(old), "a member replaced by a new announcement is signalled as removed")
				}
				members[addr] = m
				seen = append(seen, m)
			} else {
				set.Remove(h)
				if old, ok := members[addr]; ok {
					nd.Class("removed-by-address", true)
					nd.Assert(vfRemoved(old), "a removed member's WaitRemoved is closed (its connections get closed)")
					delete(members, addr)
				}
			}
		case 2: // ReplaceAll with 0..2 fresh hosts
			n := nd.Concrete(nd.IntRange("n", 0, 2))
			var hs []*Host
			for i := 0; i < n; i++ {
				typ := Type(nd.Concrete(nd.IntRange("type", int(TypeMain), int(TypeBackup))))
				hs = append(hs, NewWithType(vfAddrs[i], typ))
			}
			old := members
			set.ReplaceAll(hs)
			members = map[string]*Host{}
			for _, h := range hs {
				members[h.Addr] = h
				seen = append(seen, h)
			}
			for _, o := range old {
				nd.Assert(vfRemoved(o), "hosts dropped by ReplaceAll are signalled as removed")
			}
		case 3, 4: // health marks on any host object ever seen
			if len(seen) == 0 {
				continue
			}
			h := seen[nd.Concrete(nd.Choice("which", len(seen)))]
			if op == 3 {
				set.MarkHostHealthy(h)
			} else {
				set.MarkHostUnhealthy(h)
			}
		}
		// after every step
		got := set.Healthy()
		want := vfExpected(members)
		nd.Class("stale-host-reported", len(got) > len(want))
		nd.Assert(len(got) == len(want), "usable hosts = members marked healthy in the preferred tier (count)")
		for i := 0; i < len(got) && i < len(want); i++ {
			nd.Assert(got[i] == want[i], "usable hosts = members marked healthy in the preferred tier, sorted by address (identity)")
		}
		for _, g := range got {
			nd.Assert(!vfRemoved(g), "a removed host is never reported as usable")
		}
		nd.Assert(set.Len() == len(members), "member count")
		// a list handed out earlier (a connection being balanced, a SCAN in progress, a monitor
		// round) is not rewritten by later mutations of the set
		for _, sn := range snaps[:len(snaps)*nd.Param("snapshots", 1)] {
			nd.Assert(len(sn.list) == len(sn.was), "a list of usable hosts handed out earlier keeps its content while the set changes")
			for i := 0; i < len(sn.list) && i < len(sn.was); i++ {
				nd.Assert(sn.list[i] == sn.was[i], "a list of usable hosts handed out earlier keeps its content while the set changes")
			}
		}
		snaps = append(snaps, vfSnap{list: got, was: append([]*Host(nil), got...)})
	}
	nd.Cover("history-done")
}

type vfSnap struct{ list, was []*Host }

func vfRemoved(h *Host) bool {
	select {
	case <-h.WaitRemoved():
		return true
	default:
		return false
	}
}

// VfC15_MarkVsRemove: a health mark racing with the removal (or replacement) of the same host
// never leaves a removed host among the usable hosts.
func VfC15_MarkVsRemove() {
	nd.VisibleAtomics(true)
	h := New(vfAddrs[0])
	other := New(vfAddrs[1])
	set := NewSet(h, other)
	set.MarkHostUnhealthy(h)
	replace := nd.Bool("replace")
	go func() { set.MarkHostHealthy(h) }()
	go func() {
		if replace {
			set.Add(New(vfAddrs[0])) // the address is announced again: new object
		} else {
			set.Remove(New(vfAddrs[0]))
		}
	}()
	go func() { _ = set.Healthy() }() // a reader
	nd.Quiesce()
	for _, g := range set.Healthy() {
		nd.Assert(!vfRemoved(g), "a removed host is never reported as usable, whatever the interleaving of mark and removal")
		nd.Assert(set.all[g.Addr] == g, "every usable host is the current member for its address (no replaced object is reported)")
	}
	nd.Assert(vfRemoved(h) || set.all[h.Addr] == h, "a host that is no longer the member for its address is signalled as removed")
	nd.Cover("raced")
}

// VfC15_UpdateVsReader: a reader (a connection being balanced) asks for the usable hosts while one
// update of the set is applied: the whole endpoint list announced again (ReplaceAll), an address
// announced again with the other type (Add), or a batch removed. Readers do not take the set's
// lock, so whatever they get must be the usable hosts of the set before or after the update -
// never a half-applied one (an empty list although a main host is usable before and after, or
// backup hosts while a main host is).
func VfC15_UpdateVsReader() {
	nd.VisibleAtomics(true)
	m1, m2, b1 := NewWithType(vfAddrs[0], TypeMain), NewWithType(vfAddrs[1], TypeMain), NewWithType("10.0.0.9:1", TypeBackup)
	set := NewSet(m1, m2, b1)
	before := append([]*Host(nil), set.Healthy()...)
	var seen []*Host
	got := false
	kind := nd.Concrete(nd.Choice("update", 3))
	go func() {
		switch kind {
		case 0: // the same endpoints are announced again as a whole
			set.ReplaceAll([]*Host{NewWithType(vfAddrs[0], TypeMain), NewWithType(vfAddrs[1], TypeMain), NewWithType("10.0.0.9:1", TypeBackup)})
		case 1: // both main hosts are announced again in one update
			set.Add(NewWithType(vfAddrs[0], TypeMain), NewWithType(vfAddrs[1], TypeMain))
		case 2: // one main host and the backup host leave in one update
			set.Remove(New(vfAddrs[0]), New("10.0.0.9:1"))
		}
	}()
	go func() { seen = append([]*Host(nil), set.Healthy()...); got = true }()
	nd.PanicLabel("update-vs-reader")
	nd.Quiesce()
	after := set.Healthy()
	nd.Assert(got, "the reader returns")
	same := func(a, b []*Host) bool {
		if len(a) != len(b) {
			return false
		}
		for i := range a {
			if a[i].Addr != b[i].Addr || a[i].Type != b[i].Type {
				return false
			}
		}
		return true
	}
	nd.Assert(same(seen, before) || same(seen, after), "a reader sees the usable hosts of the set before or after an update, never a half-applied update")
	nd.Cover("update-raced")
}

// VfC15_MarkVsMark: two health transitions of the same member race (a passive failure report and
// the active checker, or two checkers): whatever the interleaving, afterwards the member is
// reported as usable exactly if it is marked healthy.
func VfC15_MarkVsMark() {
	nd.VisibleAtomics(true)
	h := New(vfAddrs[0])
	other := New(vfAddrs[1])
	set := NewSet(h, other)
	if nd.Bool("starts-unhealthy") {
		set.MarkHostUnhealthy(h)
	}
	go func() { set.MarkHostHealthy(h) }()
	go func() { set.MarkHostUnhealthy(h) }()
	if nd.Bool("third-mark") {
		go func() { set.MarkHostHealthy(h) }()
	}
	nd.Quiesce()
	usable := false
	for _, g := range set.Healthy() {
		if g == h {
			usable = true
		}
	}
	nd.Class("mark-vs-mark-map-out-of-step", true)
	nd.Assert(usable == h.IsHealthy(), "after racing health marks the member is usable exactly if it is marked healthy")
	nd.Cover("raced")
}
