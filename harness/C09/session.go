//vf:pkg proc/redis
package redis

import (
	nd "github.com/samaritan-proxy/samaritan/vfnd"
)

// VfC09_SessionEndsWhenClosed: stopping a listener closes every downstream connection and waits
// for the connection handlers (C09.a assumes "a handler serves until its connection is closed").
// The Redis handler is session.Serve: it must return once its connection has been closed, also
// while requests read from that connection are still waiting for a backend that does not answer
// (0..2 answered by the backend first, the rest never) - otherwise Stop of the service never
// returns while a backend is unresponsive.
func VfC09_SessionEndsWhenClosed() {
	nd.ConcreteClock(true)
	a := "10.0.0.1:7000"
	p, clients := vfNewProc(nil, a)
	p.u.slots[vfSlotOf2("k1")] = &instance{Addr: a}
	p.u.slots[vfSlotOf2("k2")] = &instance{Addr: a}
	reqBytes := []byte("*2\r\n$3\r\nget\r\n$2\r\nk1\r\n*2\r\n$3\r\nget\r\n$2\r\nk2\r\n")
	nreq := nd.Concrete(nd.IntRange("requests", 0, 2))
	conn := &vfDownConn{data: reqBytes[:nreq*21], split: 1, closed: make(chan struct{})}
	s := newSession(p, conn)
	served := false
	go func() { s.Serve(); served = true }()
	answered := nd.Concrete(nd.IntRange("answered-before-stop", 0, 2))
	nd.Assume(answered <= nreq)
	go func() {
		for i := 0; i < answered; i++ {
			r := <-clients[a].pendingReqs
			r.SetResponse(newBulkString("v"))
		}
	}()
	nd.PanicLabel("session-stop")
	nd.Quiesce()
	if answered < nreq {
		nd.Cover("request-in-flight-to-a-silent-backend")
	}
	conn.Close() // what listener.Stop does with every registered connection
	nd.Quiesce()
	nd.Assert(served, "the connection handler returns once its connection is closed, also with a request in flight to a backend that never answers")
}
