#!/usr/bin/env python3
# Generates /verif/MANIFEST.json from /verif/checks/*.json (one entry per property with a check).
import json,glob,os,subprocess
props={json.loads(l)['id']:json.loads(l) for l in open('/verif/properties.jsonl')}
notes=json.load(open('/verif/tools/manifest_notes.json')) if os.path.exists('/verif/tools/manifest_notes.json') else {}
checks=[]
claimed=set()
for f in sorted(glob.glob('/verif/checks/C*.json')):
    d=json.load(open(f)); pid=d['property']; claimed.add(pid)
    obl=[o['id'] for o in d['obligations']]
    n=notes.get(pid,{})
    checks.append({
      "property_id":pid,
      "quick_cmd":f"/verif/bin/vf check {pid} --tier quick",
      "thorough_cmd":f"/verif/bin/vf check {pid} --tier thorough",
      "evidence_file":f"/verif/evidence/{pid}.json",
      "replay_cmd_template":"/verif/bin/vf replay {path}",
      "engine":"vf",
      "technique":"bounded symbolic execution of the go/ssa of the real functions (SSA -> SMT-LIB2 bit-vectors); z3 decides every path-feasibility and proof-obligation query; sat models are replayed natively"+("; concurrent obligations: interleavings enumerated by the executor under a pre-emption bound" if pid in notes and "ENUMERATED" in notes[pid].get("note","") else ""),
      "level_claimed":{"category":"model_checking",
         "text":n.get("text", f"Bounded, solver-decided: obligations {', '.join(obl)} hold for every input / fault / order within the bounds written in the evidence file (unsat from z3 5.1.0; thorough tier re-decides with z3 4.8.12 and cvc5). Nothing is claimed outside the bounds or about stubbed code."),
         "design_ref":f"DESIGN.md §7 {pid}"},
      "level_note":n.get("note","Trusted base: the vf executor's SSA semantics (validated by native replay of every counterexample and by translator self-tests), z3; stubs and assumptions are listed per obligation in the evidence file (assumptions, stubs_and_intrinsics, outside_claim)."),
    })
na=[]
for pid in props:
    if pid not in claimed:
        na.append({"property_id":pid,"reason":notes.get(pid,{}).get("na","check not built yet in this session; see DESIGN.md status table")})
heads=subprocess.check_output(['git','-C','/repo','log','--format=%h %s','72108a6..HEAD']).decode().strip().split('\n')
m={"version":1,
 "setup_cmd":"cd /verif && ./setup.sh",
 "hooks":{"guard":"verif","enable":"none needed: harnesses are injected as in-package overlay files (go/packages Overlay for the executor, go test -overlay for native replay); no hook is committed to /repo","baseline_off_cmd":"cd /repo && GOFLAGS=-mod=mod go test -vet=off -count=1 -timeout 25m ./...","source_commits":[],"add_only":True},
 "engines":[{"name":"vf","path":"/verif/engine","serves_properties":sorted(claimed),"kind_free_text":"go/ssa -> SMT-LIB2 forking symbolic executor written for this task (Layer S of DESIGN.md) with a bounded-pre-emption thread scheduler; persistent z3-new 5.1.0 over stdin; z3 4.8.12 + cvc5 1.0.3 cross-check in the thorough tier; native replay via go test -overlay"}],
 "checks":checks,
 "not_applicable":na,
 "notes":"fix: commits in /repo (unguarded, one defect each): "+"; ".join(h for h in heads if ' fix:' in h)+". Known/fixed findings: /verif/known_findings.json. Seeded changes used to validate the checks: /verif/seeded/."}
json.dump(m,open('/verif/MANIFEST.json','w'),indent=1)
print('claimed',sorted(claimed),'na',[x['property_id'] for x in na])
