//vf:pkg proc/redis
package redis

import (
	nd "github.com/samaritan-proxy/samaritan/vfnd"
)

// vfSlotOf: slot of a concrete key, computed with the (separately verified, C12) real functions.
func vfSlotOf(key string) int { return int(crc16(hashtag([]byte(key)))) & (slotNum - 1) }

// VfC03_PassThrough: a single-key command is forwarded as the very request object the client
// sent (arguments byte-for-byte, any bytes), to the node owning the slot of argument 1 (EVAL:
// argument 3).
func VfC03_PassThrough() {
	a, b := "10.0.0.1:7000", "10.0.0.2:7000"
	p, clients := vfNewProc(nil, a, b)
	k1, k3 := "alpha", "bravo{x}"
	p.u.slots[vfSlotOf(k1)] = &instance{Addr: a}
	p.u.slots[vfSlotOf(k3)] = &instance{Addr: b}
	cmds := []string{"get", "SET", "hset", "zadd", "lrange", "eval", "EVAL", "expire", "getrange"}
	cmd := cmds[nd.Concrete(nd.Choice("cmd", len(cmds)))]
	isEval := cmd == "eval" || cmd == "EVAL"
	val := nd.Bytes("v", nd.Concrete(nd.IntRange("vlen", 0, 3))) // any bytes: CR, LF, NUL, empty
	arr := []RespValue{*newBulkString(cmd), *newBulkString(k1), *newBulkBytes(val), *newBulkString(k3), *newBulkBytes(nd.Bytes("w", 2))}
	if isEval {
		arr[1] = *newBulkBytes(nd.Bytes("script", 3))
		arr[2] = *newBulkString("1")
	}
	raw := newRawRequest(newArray(arr...))
	body := raw.Body()
	nd.PanicLabel("pass-through")
	p.handleRequest(raw)
	want := a
	if isEval {
		want = b
	}
	other := b
	if isEval {
		other = a
	}
	sreq := vfTake(clients[want])
	nd.Assert(sreq != nil && vfTake(clients[other]) == nil, "the command goes to the node owning the slot of its key, and only there")
	if sreq == nil {
		return
	}
	nd.Assert(sreq.Body() == body, "the forwarded request is the client's request object (all arguments byte-for-byte)")
	for i := range arr {
		nd.Assert(&sreq.Body().Array[i] == &body.Array[i] && vfBytesEq(body.Array[i].Text, arr[i].Text), "arguments are relayed unmodified")
	}
	// the backend's reply is relayed as is
	reply := newBulkBytes(nd.Bytes("r", 3))
	sreq.SetResponse(reply)
	nd.Assert(vfDone(raw.done) && raw.Response() == reply, "the node's reply is the client's reply")
	nd.Cover("relayed")
}

// VfC03_SplitRouting: each per-key child of MGET/MSET/DEL is routed by its own key.
func VfC03_SplitRouting() {
	a, b := "10.0.0.1:7000", "10.0.0.2:7000"
	p, clients := vfNewProc(nil, a, b)
	k1, k2 := "alpha", "bravo"
	p.u.slots[vfSlotOf(k1)] = &instance{Addr: a}
	p.u.slots[vfSlotOf(k2)] = &instance{Addr: b}
	kind := nd.Concrete(nd.IntRange("kind", 0, 2))
	order := nd.Bool("swap")
	ka, kb := k1, k2
	if order {
		ka, kb = k2, k1
	}
	var raw *rawRequest
	switch kind {
	case 0:
		raw = newRawRequest(newStringArray("mget", ka, kb))
	case 1:
		raw = newRawRequest(newStringArray("mset", ka, "1", kb, "2"))
	case 2:
		raw = newRawRequest(newStringArray("del", ka, kb))
	}
	nd.PanicLabel("split-routing")
	p.handleRequest(raw)
	ra, rb := vfTake(clients[a]), vfTake(clients[b])
	nd.Assert(ra != nil && rb != nil && vfTake(clients[a]) == nil && vfTake(clients[b]) == nil, "each key's command goes to the node owning that key's slot")
	if ra == nil || rb == nil {
		return
	}
	nd.Assert(vfBytesEq(ra.Body().Array[1].Text, []byte(k1)) && vfBytesEq(rb.Body().Array[1].Text, []byte(k2)), "the per-key command carries its own key")
}

// VfC03_TableFill: after a successful CLUSTER NODES round the slot table maps every slot of a
// master's declared ranges to that master with exactly its replicas attached; a later round with
// a changed layout replaces addresses and replica lists (no stale entries).
var vfKeyOfSlot = map[int]string{0: "k596", 1: "k37999", 99: "k17955", 100: "k2136", 3999: "k14844", 4000: "k4508", 4001: "k19218", 4049: "k50490", 4050: "k51887", 4051: "k13622", 7999: "k21271", 8000: "k15392", 8001: "k8482", 8191: "k8036", 8192: "k3962", 8193: "k2398", 8241: "k23477", 8242: "k22860", 12191: "k23679", 12192: "k142412", 16383: "k10322"}

func VfC03_TableFill() {
	seed := "10.0.0.1:7000"
	u, clients := vfNewUpstream(nil, seed)
	los := []int{0, 1, 100, 8000}
	his := []int{0, 7999, 8000, 16383}
	lo := los[nd.Concrete(nd.Choice("lo", len(los)))]
	hi := his[nd.Concrete(nd.Choice("hi", len(his)))]
	nd.Assume(lo <= hi)
	mkRange := func(l, h int) string {
		if l == h {
			return itoa(int64(l))
		}
		return itoa(int64(l)) + "-" + itoa(int64(h))
	}
	round := func(text string) error {
		done := make(chan error, 1)
		go func() { done <- u.doSlotsRefresh() }()
		nd.Quiesce()
		req := vfTake(clients[seed])
		if req == nil {
			return errInvalidClusterNodes
		}
		nd.Assert(len(req.Body().Array) == 2 && vfBytesEq(req.Body().Array[0].Text, []byte("cluster")) && vfBytesEq(req.Body().Array[1].Text, []byte("nodes")), "the refresh asks CLUSTER NODES")
		req.SetResponse(newBulkString(text))
		nd.Quiesce()
		select {
		case err := <-done:
			return err
		default:
			nd.Assert(false, "the refresh returns once the reply arrived")
			return errInvalidClusterNodes
		}
	}
	nd.PanicLabel("table-fill")
	// round 1: master A [lo..hi] with replica R1; master B the rest above hi (if any) without slots marker lines
	text1 := "idA 10.0.1.1:7000@17000 myself,master - 0 0 1 connected " + mkRange(lo, hi) + " [99->-idB]\n" +
		"idR1 10.0.1.2:7000@17000 slave idA 0 0 1 connected\n" +
		"idB 10.0.1.3:7000@17000 master - 0 0 2 connected\n"
	// connections to members of the cluster that are not masters with slots (a replica serving
	// reads, a master whose slots are on their way) may have requests in flight
	replicaConn := vfFakeClient()
	clients["10.0.1.2:7000"] = replicaConn
	u.clients.Store(clients)
	err := round(text1)
	nd.Assert(err == nil, "a well-formed CLUSTER NODES reply (master without slots, migration marker) is accepted")
	nd.Assert(!vfDone(replicaConn.quit), "a refresh leaves the connections to the cluster's nodes alone (requests in flight on a replica's connection are not cut)")
	if err != nil {
		return
	}
	probe := func(s int, addr string, replica string) {
		if s < 0 || s >= slotNum {
			return
		}
		inst := u.slots[s]
		if addr == "" {
			nd.Assert(inst == nil || inst.Addr != "10.0.1.1:7000" && inst.Addr != "10.0.9.9:7000", "slots outside the declared range are not given to the master")
			return
		}
		nd.Assert(inst != nil && inst.Addr == addr, "every slot of the declared range maps to the declaring master")
		if inst == nil {
			return
		}
		if key, ok := vfKeyOfSlot[s]; ok {
			// what a client sees: a write for a key of that slot is routed to the declaring master
			nd.Assert(vfSlotOfKey(key) == s, "harness: the probe key hashes to the probed slot")
			wr := newSimpleRequest(newStringArray("set", key, "v"))
			got, cerr := u.chooseHost([]byte(key), wr)
			nd.Assert(cerr == nil && got == addr, "a write for a key of a declared slot is routed to the master that declares it in the latest layout")
		}
		if replica == "" {
			nd.Assert(len(inst.Replicas) == 0, "exactly the master's replicas are attached")
		} else {
			nd.Assert(len(inst.Replicas) == 1 && inst.Replicas[0].Addr == replica, "exactly the master's replicas are attached")
		}
	}
	mid := (lo + hi) / 2
	probe(lo, "10.0.1.1:7000", "10.0.1.2:7000")
	probe(hi, "10.0.1.1:7000", "10.0.1.2:7000")
	probe(mid, "10.0.1.1:7000", "10.0.1.2:7000")
	probe(lo-1, "", "")
	probe(hi+1, "", "")
	// round 2: same node id A now reachable at another address, its replica gone; R1 now replicates B
	text2 := "idA 10.0.9.9:7000@17000 master - 0 0 3 connected " + mkRange(lo, hi) + "\n" +
		"idR1 10.0.1.2:7000@17000 slave idB 0 0 1 connected\n" +
		"idB 10.0.1.3:7000@17000 master - 0 0 2 connected\n"
	err = round(text2)
	nd.Assert(err == nil, "second round accepted")
	if err != nil {
		return
	}
	probe(lo, "10.0.9.9:7000", "")
	probe(hi, "10.0.9.9:7000", "")
	probe(mid, "10.0.9.9:7000", "")
	// round 3: address unchanged, replica set changed (replica added)
	text3 := "idA 10.0.9.9:7000@17000 master - 0 0 3 connected " + mkRange(lo, hi) + "\n" +
		"idR2 10.0.1.7:7000@17000 slave idA 0 0 1 connected\n"
	err = round(text3)
	nd.Assert(err == nil, "third round accepted")
	if err != nil {
		return
	}
	probe(lo, "10.0.9.9:7000", "10.0.1.7:7000")
	probe(hi, "10.0.9.9:7000", "10.0.1.7:7000")
	nd.Cover("three-rounds")
	// round 4: the range is resharded: A keeps the lower half, a new master C takes the upper half
	if lo < hi {
		text4 := "idA 10.0.9.9:7000@17000 master - 0 0 3 connected " + mkRange(lo, mid) + "\n" +
			"idR2 10.0.1.7:7000@17000 slave idA 0 0 1 connected\n" +
			"idC 10.0.1.8:7000@17000 master - 0 0 4 connected " + mkRange(mid+1, hi) + "\n"
		err = round(text4)
		nd.Assert(err == nil, "fourth round accepted")
		if err != nil {
			return
		}
		probe(lo, "10.0.9.9:7000", "10.0.1.7:7000")
		probe(mid, "10.0.9.9:7000", "10.0.1.7:7000")
		probe(mid+1, "10.0.1.8:7000", "")
		probe(hi, "10.0.1.8:7000", "")
		nd.Cover("resharded")
		// round 5: the two halves change hands between the same two masters; no configuration
		// epoch, node or replica count differs from the previous reply, only the slot lists do
		text5 := "idA 10.0.9.9:7000@17000 master - 0 0 3 connected " + mkRange(mid+1, hi) + "\n" +
			"idR2 10.0.1.7:7000@17000 slave idA 0 0 1 connected\n" +
			"idC 10.0.1.8:7000@17000 master - 0 0 4 connected " + mkRange(lo, mid) + "\n"
		err = round(text5)
		nd.Assert(err == nil, "fifth round accepted")
		if err != nil {
			return
		}
		probe(lo, "10.0.1.8:7000", "")
		probe(mid, "10.0.1.8:7000", "")
		probe(mid+1, "10.0.9.9:7000", "10.0.1.7:7000")
		probe(hi, "10.0.9.9:7000", "10.0.1.7:7000")
		nd.Cover("halves-swapped")
	}
}

// VfC03_RouteDuringRefresh: a keyed request is routed while a slots refresh that confirms the
// current layout is rewriting the table (the refresh loop and the sessions run concurrently, the
// table is an ordinary array). Whatever the interleaving of the lookup with the table's rewrite,
// the request goes to the owner of its slot: on a stable cluster a refresh is invisible.
func VfC03_RouteDuringRefresh() {
	seed := "10.0.0.1:7000"
	owner := "10.0.1.1:7000"
	u, clients := vfNewUpstream(nil, seed)
	key := "k1"
	slot := vfSlotOf(key)
	text := "idA " + owner + "@17000 myself,master - 0 0 1 connected " + itoa(int64(slot)) + "\n" +
		"idB 10.0.1.3:7000@17000 master - 0 0 2 connected " + itoa(int64((slot+1)%slotNum)) + "\n"
	u.slots[slot] = &instance{Addr: owner} // the table is loaded, the layout does not change
	nd.PanicLabel("route-during-refresh")
	done := make(chan error, 1)
	go func() { done <- u.doSlotsRefresh() }()
	nd.Quiesce()
	rq := vfTake(clients[seed])
	if rq == nil {
		nd.Assert(false, "the refresh asks a seed host")
		return
	}
	nd.Watch(u) // from here on the refresh's stores into the table and the lookup's load may interleave
	var addr string
	var err error
	routed := false
	rq.SetResponse(newBulkString(text))
	go func() {
		addr, err = u.chooseHost([]byte(key), newSimpleRequest(newStringArray("set", key, "v")))
		routed = true
	}()
	nd.Quiesce()
	nd.Assert(routed && err == nil && addr == owner, "a request routed while a refresh confirms the layout goes to the owner of its slot (the table is never seen half rewritten)")
	select {
	case e := <-done:
		nd.Assert(e == nil, "the refresh succeeds")
		nd.Cover("refreshed-while-routing")
	default:
		nd.Assert(false, "the refresh returns")
	}
}

// VfC04_TrafficDuringSilentRefresh: the node asked for CLUSTER NODES does not answer (it hangs with
// its connection up - e.g. the master that is about to be failed over). The refresh round (the
// function the refresh loop calls) waits; meanwhile commands for keys of reachable nodes are still
// routed and forwarded, and redirections are still followed: nobody waits for the refresh.
func VfC04_TrafficDuringSilentRefresh() {
	seed, owner, other := "10.0.0.1:7000", "10.0.1.1:7000", "10.0.1.2:7000"
	u, clients := vfNewUpstream(nil, seed)
	clients[owner], clients[other] = vfFakeClient(), vfFakeClient()
	u.clients.Store(clients)
	key := "k1"
	u.slots[vfSlotOf(key)] = &instance{Addr: owner}
	nd.PanicLabel("traffic-during-refresh")
	refreshed := false
	go func() { u.refreshSlots(); refreshed = true }()
	nd.Quiesce()
	rq := vfTake(clients[seed])
	nd.Assert(rq != nil && !refreshed, "the refresh asked the seed host and waits for its answer")
	if rq == nil {
		return
	}
	// a command arrives while the refresh is waiting
	req := newSimpleRequest(newStringArray("set", key, "v"))
	sent := false
	go func() { u.MakeRequest([]byte(key), req); sent = true }()
	nd.Quiesce()
	nd.Assert(sent && vfTake(clients[owner]) == req, "a command for a key of a reachable node is forwarded while a refresh waits for a silent node")
	// ... and so is a redirection
	red := newSimpleRequest(newStringArray("get", key))
	followed := false
	go func() { u.handleRedirection(red, newError("MOVED 1 "+other)); followed = true }()
	nd.Quiesce()
	nd.Assert(followed && vfTake(clients[other]) == red, "a redirection is followed while a refresh waits for a silent node")
	nd.Cover("refresh-pending")
	close(u.quit) // the upstream stops: the waiting refresh gives up
	nd.Quiesce()
	nd.Assert(refreshed, "the waiting refresh ends when the upstream stops")
}

// VfC12_EvalAfterClusterDown: EVAL is routed by its first key (argument 3), also on every later
// transmission of the same request: the owner of the key's slot answers CLUSTERDOWN (a failover is
// going on); whatever the proxy sends for that request afterwards (it may answer the client with
// the error, or try again) goes to the node owning the slot of the EVAL's key, never to the node
// that the script text or another argument would hash to.
func VfC12_EvalAfterClusterDown() {
	nd.ConcreteClock(true)
	a, b := "10.0.0.1:7000", "10.0.0.2:7000"
	p, clients := vfNewProc(nil, a, b)
	for _, c := range clients {
		c.onRedirection = p.u.handleRedirection
		c.onClusterDown = p.u.handleClusterDown
	}
	key, script := "k596", "return {1}" // the key's slot is 0
	for i := range p.u.slots {
		p.u.slots[i] = &instance{Addr: b} // every other slot (also the script text's) belongs to b
	}
	p.u.slots[vfSlotOf(key)] = &instance{Addr: a}
	nd.Assert(vfSlotOf(script) != vfSlotOf(key), "harness: script and key hash to different slots")
	raw := newRawRequest(newStringArray("eval", script, "1", key))
	nd.PanicLabel("eval-after-clusterdown")
	p.handleRequest(raw)
	first := vfTake(clients[a])
	nd.Assert(first != nil && vfTake(clients[b]) == nil, "EVAL goes to the node owning the slot of its key")
	if first == nil {
		return
	}
	clients[a].handleResp(first, newError("CLUSTERDOWN The cluster is down"))
	nd.Quiesce() // a retry, if any, happens now
	nd.Assert(vfTake(clients[b]) == nil, "a later transmission of an EVAL goes to the owner of its key's slot, not where another argument hashes to")
	if again := vfTake(clients[a]); again != nil {
		nd.Cover("retried")
		again.SetResponse(newInteger(1))
	}
	nd.Assert(vfDone(raw.done), "the EVAL is answered")
	nd.Cover("clusterdown-handled")
}
