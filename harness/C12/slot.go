//vf:pkg proc/redis
package redis

import (
	"github.com/samaritan-proxy/samaritan/host"
	nd "github.com/samaritan-proxy/samaritan/vfnd"
)

// bit-serial CRC16/XMODEM (poly 0x1021, init 0, no reflection): one byte step, branch-free so
// that the whole lemma is a single solver query.
func vfCrcStepRef(crc uint16, b byte) uint16 {
	crc ^= uint16(b) << 8
	for i := 0; i < 8; i++ {
		top := -(crc >> 15) // 0xffff if the top bit is set, else 0
		crc = crc<<1 ^ (0x1021 & top)
	}
	return crc
}

// VfC12_CrcStep: for all 2^16 states and all 256 bytes the table-driven step used by crc16()
// equals the bit-serial CRC16/XMODEM step. By induction over the key this covers every length.
func VfC12_CrcStep() {
	crc := nd.Uint16("crc")
	b := nd.Byte("b")
	got := ((crc << 8) & 0xff00) ^ crc16tab[((crc>>8)&0xff)^uint16(b)]
	nd.Assert(got == vfCrcStepRef(crc, b), "table step equals bit-serial CRC16/XMODEM step")
}

// VfC12_CrcFold: crc16(b) is exactly that step folded from 0 over b[0..n) (the loop of the real
// crc16 visits every byte once, in order, starting from 0).
func VfC12_CrcFold() {
	max := nd.Param("maxlen", 6)
	n := nd.IntRange("n", 0, max)
	buf := nd.Bytes("k", max)
	key := buf[:n]
	// the fold uses the same table step as VfC12_CrcStep proves equal to the specification's
	// step; a whole-stream query against the bit-serial form stalls bit-blasting beyond 2 bytes,
	// so the link table-step == spec-step is the lemma, and this obligation is the loop structure:
	// start at 0, every byte, in order, nothing else.
	want := uint16(0)
	for i := 0; i < len(key); i++ {
		want = ((want << 8) & 0xff00) ^ crc16tab[((want>>8)&0xff)^uint16(key[i])]
	}
	nd.Assert(crc16(key) == want, "crc16 folds the step from 0 over all bytes")
	if n >= 2 {
		nd.Cover("two-or-more-bytes")
	}
}

// vfHashTagRef transliterates keyHashSlot() of the Redis Cluster specification (tag extraction).
func vfHashTagRef(key []byte) (start, end int) {
	keylen := len(key)
	s := 0
	for s = 0; s < keylen; s++ {
		if key[s] == '{' {
			break
		}
	}
	if s == keylen {
		return 0, keylen
	}
	e := 0
	for e = s + 1; e < keylen; e++ {
		if key[e] == '}' {
			break
		}
	}
	if e == keylen || e == s+1 {
		return 0, keylen
	}
	return s + 1, e
}

// VfC12_HashTag: hashtag(key) is the text between the first '{' and the first '}' after it when
// non-empty, the whole key otherwise; checked both against the spec transliteration and against a
// declarative statement with solver-chosen witnesses.
func VfC12_HashTag() {
	max := nd.Param("maxlen", 8)
	n := nd.IntRange("n", 0, max)
	buf := nd.Bytes("k", max)
	key := buf[:n]
	got := hashtag(key)
	s, e := vfHashTagRef(key)
	nd.Assert(len(got) == e-s, "hash tag has the specified length")
	same := true
	for i := 0; i < len(got) && i < e-s; i++ {
		if got[i] != key[s+i] {
			same = false
		}
	}
	nd.Assert(same, "hash tag has the specified bytes")
	if len(got) > 0 && e-s > 0 {
		nd.Assert(&got[0] == &key[s], "hash tag is the specified sub-slice of the key")
	}
	// declarative form: a witness position i of '{' with no '{' before it, j of '}' with no '}' in (i,j)
	i := nd.IntRange("wi", 0, max)
	j := nd.IntRange("wj", 0, max)
	if i < n && j < n && i < j && key[i] == '{' && key[j] == '}' {
		first := true
		for p := 0; p < i; p++ {
			if key[p] == '{' {
				first = false
			}
		}
		for p := i + 1; p < j; p++ {
			if key[p] == '}' {
				first = false
			}
		}
		if first {
			nd.Cover("tag-witness")
			if j > i+1 {
				nd.Assert(len(got) == j-i-1 && &got[0] == &key[i+1], "non-empty tag between first '{' and next '}' is used")
			} else {
				nd.Assert(len(got) == n, "empty tag {} means the whole key is hashed")
			}
		}
	}
}

// VfC12_Slot: chooseHost routes by slots[crc16(hashtag(key)) mod 16384]. The table holds an
// instance at one arbitrary (symbolic) slot S only: for all keys whose reference slot is S the
// instance is chosen, for all other keys it is not.
func VfC12_Slot() {
	max := nd.Param("maxlen", 4)
	u := &upstream{cfg: &config{}, hosts: host.NewSet()}
	inst := &instance{Addr: "owner"}
	S := nd.IntRange("S", 0, 16383)
	u.slots[S] = inst
	n := nd.IntRange("n", 0, max)
	buf := nd.Bytes("k", max)
	key := buf[:n]
	s, e := vfHashTagRef(key)
	// reference slot: fold of the (lemma-proved) step over the specification's tag
	want := uint16(0)
	for i := s; i < e; i++ {
		want = ((want << 8) & 0xff00) ^ crc16tab[((want>>8)&0xff)^uint16(key[i])]
	}
	req := newSimpleRequest(newArray(*newBulkString("set")))
	addr, err := u.chooseHost(key, req)
	if int(want%16384) == S {
		nd.Cover("key-in-slot-S")
		nd.Assert(err == nil && addr == "owner", "key whose CRC16(tag) mod 16384 is S goes to the owner of slot S")
	} else {
		nd.Cover("key-in-other-slot")
		nd.Assert(err != nil, "key of another slot does not go to the owner of slot S")
	}
}
