//vf:pkg proc/internal/lb
package lb

import (
	"go.uber.org/atomic"
	"github.com/samaritan-proxy/samaritan/host"
	"github.com/samaritan-proxy/samaritan/pb/config/service"

	nd "github.com/samaritan-proxy/samaritan/vfnd"
)

func vfHosts(n int) []*host.Host {
	addrs := []string{"h0:1", "h1:1", "h2:1", "h3:1", "h4:1", "h5:1"}
	var hs []*host.Host
	for i := 0; i < n; i++ {
		hs = append(hs, host.New(addrs[i]))
	}
	return hs
}

func vfIndexOf(hs []*host.Host, h *host.Host) int {
	for i, x := range hs {
		if x == h {
			return i
		}
	}
	return -1
}

// VfC06_Policies: every policy returns nil for an empty list and otherwise a member of the list;
// least-connection never returns the strictly busier of its two samples; random sources may
// return any non-negative value.
func VfC06_Policies() {
	n := nd.Concrete(nd.IntRange("n", 0, nd.Param("hosts", 5)))
	hs := vfHosts(n)
	for _, h := range hs {
		c := nd.IntRange("conns", 0, 3)
		for i := 0; i < 3; i++ {
			if i < c {
				h.IncConnCount()
			}
		}
	}
	var samples []int
	old := randInt
	defer func() { randInt = old }()
	randInt = func() int {
		v := nd.Int("rand")
		nd.Assume(v >= 0)                      // math/rand.Int's contract
		nd.Assume(v < nd.Param("randmax", 1<<16)) // stated bound: 64-bit remainder by a non-power-of-two stalls bit-blasting
		samples = append(samples, v)
		return v
	}
	policy := service.LoadBalancePolicy(nd.Concrete(nd.IntRange("policy", 0, 3)))
	b := New(policy)
	nd.PanicLabel("pick-host")
	got := b.PickHost(hs)
	if n == 0 {
		nd.Assert(got == nil, "no candidate: nothing is selected")
		return
	}
	gi := vfIndexOf(hs, got)
	nd.Assert(gi >= 0, "the selected host is a member of the candidate list")
	if policy == service.LoadBalancePolicy_LEAST_CONNECTION && len(samples) == 2 {
		nd.Cover("least-conn")
		a, c := hs[samples[0]%n], hs[samples[1]%n]
		nd.Assert(got == a || got == c, "least-connection returns one of its two samples")
		other := a
		if got == a {
			other = c
		}
		nd.Assert(got.ConnCount() <= other.ConnCount(), "least-connection never prefers the strictly busier sample")
	}
}

// VfC06_RoundRobin: from any starting index, n*k consecutive selections give each of the n hosts
// exactly k selections.
func VfC06_RoundRobin() {
	n := nd.Concrete(nd.IntRange("n", 1, nd.Param("hosts", 4)))
	k := nd.Param("k", 2)
	hs := vfHosts(n)
	b := newRoundRobinBalancer()
	start := nd.Uint64("start")
	// stated bound: small counters and the neighbourhood of 2^32 (a counter narrower than 64 bits
	// wraps there after ~50 days at 1000 connections/s); wrapping the 64-bit counter needs 1.8e19 selections
	nd.Assume(start < uint64(nd.Param("startmax", 1<<16)) || (start >= 1<<32-16 && start < 1<<32+16))
	vfSetIndex(b.index, start)
	counts := make([]int, n)
	nd.PanicLabel("pick-host")
	for i := 0; i < n*k; i++ {
		gi := vfIndexOf(hs, b.PickHost(hs))
		nd.Assert(gi >= 0, "the selected host is a member of the candidate list")
		if gi < 0 {
			return
		}
		counts[nd.Concrete(gi)]++
	}
	for i := 0; i < n; i++ {
		nd.Assert(counts[i] == k, "round-robin gives each of n hosts exactly k of n*k consecutive selections")
	}
}

// VfC06_RoundRobinPerService: the rotation of one service is not disturbed by the selections of
// another service in the same process: both obtain their balancer from lb.New (as the TCP processor
// does when it is created and on every policy update); service 2 selects 0..2 times over its own
// host list between any two selections of service 1, which still gives each of its n hosts exactly
// k of n*k consecutive selections.
func VfC06_RoundRobinPerService() {
	n := nd.Concrete(nd.IntRange("n", 2, nd.Param("hosts", 3)))
	k := nd.Param("k", 2)
	hs := vfHosts(n)
	others := vfHosts(3)
	b1 := New(service.LoadBalancePolicy_ROUND_ROBIN)
	b2 := New(service.LoadBalancePolicy_ROUND_ROBIN)
	counts := make([]int, n)
	nd.PanicLabel("pick-host")
	for i := 0; i < n*k; i++ {
		m := nd.Concrete(nd.IntRange("other-service-selections", 0, 2))
		for j := 0; j < m; j++ {
			nd.Assert(vfIndexOf(others, b2.PickHost(others)) >= 0, "the selected host is a member of the candidate list")
			nd.Cover("interleaved")
		}
		gi := vfIndexOf(hs, b1.PickHost(hs))
		nd.Assert(gi >= 0, "the selected host is a member of the candidate list")
		if gi < 0 {
			return
		}
		counts[nd.Concrete(gi)]++
	}
	for i := 0; i < n; i++ {
		nd.Assert(counts[i] == k, "round-robin gives each of n hosts exactly k of n*k consecutive selections, whatever other services select meanwhile")
	}
}

// VfC06_RoundRobinConcurrent: two accepts selecting at the same time still get distinct hosts out
// of two (each of n hosts exactly k of n*k selections, here n=2, k=1), whatever the interleaving
// of their atomic operations.
func VfC06_RoundRobinConcurrent() {
	nd.VisibleAtomics(true)
	hs := vfHosts(2)
	b := newRoundRobinBalancer()
	var got [2]*host.Host
	go func() { got[0] = b.PickHost(hs) }()
	go func() { got[1] = b.PickHost(hs) }()
	nd.Quiesce()
	nd.Assert(got[0] != nil && got[1] != nil && got[0] != got[1], "two concurrent round-robin selections over two hosts pick each host once")
	nd.Cover("both-picked")
}

// vfSetIndex sets the balancer's shared counter whatever integer width it is declared with.
func vfSetIndex(idx interface{}, v uint64) {
	switch x := idx.(type) {
	case *atomic.Uint64:
		x.Store(v)
	case *atomic.Uint32:
		x.Store(uint32(v))
	case *atomic.Int64:
		x.Store(int64(v))
	case *atomic.Int32:
		x.Store(int32(v))
	default:
		panic("vf: unknown counter type")
	}
}
