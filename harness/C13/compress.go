//vf:pkg proc/redis
package redis

import (
	"errors"
	"io"

	"github.com/samaritan-proxy/samaritan/pb/config/protocol"
	"github.com/samaritan-proxy/samaritan/pb/config/protocol/redis"
	"github.com/samaritan-proxy/samaritan/pb/config/service"
	"github.com/samaritan-proxy/samaritan/proc/redis/compressor"

	nd "github.com/samaritan-proxy/samaritan/vfnd"
)

// The snappy algorithm (loops growing with the input) is outside reach; it is replaced, in the
// executor and natively alike, by a stub registered under the same name in the real compressor
// registry. Contract of the stub = what the filter may rely on: D(C(x)) = x; C(x) is a stream of
// arbitrary length >= vfMinStream (the snappy framing format's fixed overhead: 10-byte stream
// identifier + 8-byte chunk header) and arbitrary content; D fails on anything that is not a
// stream produced by C.
const vfMinStream = 18

type vfStub struct{}

var vfStubFixed bool    // no short reads (fewer paths)
var vfStreams [][]byte // produced streams, index = tag
var vfOrigs [][]byte

type vfStubWriter struct {
	w      io.Writer
	buf    []byte
	closed bool
}

func (s vfStub) NewWriter(w io.Writer) io.WriteCloser { return &vfStubWriter{w: w} }
func (s vfStub) NewReader(r io.Reader) io.Reader      { return &vfStubReader{r: r} }

func (w *vfStubWriter) Write(p []byte) (int, error) {
	w.buf = append(w.buf, p...)
	return len(p), nil
}

func (w *vfStubWriter) Close() error {
	// io.Closer: behaviour after the first Close is undefined; the real writer goes back to its
	// pool on Close, so closing twice hands one writer to two users.
	nd.Assert(!w.closed, "a compressor writer is closed exactly once")
	w.closed = true
	tag := len(vfStreams)
	extra := nd.Concrete(nd.IntRange("clen", 0, 3))
	n := vfMinStream
	if extra == 1 {
		n = len(w.buf) - 7 // just short enough that header+stream < original
	} else if extra == 2 {
		n = len(w.buf) - 6 // header+stream == original: must NOT be used
	} else if extra == 3 {
		n = len(w.buf) + 5
	}
	if n < vfMinStream {
		n = vfMinStream
	}
	stream := make([]byte, n)
	stream[0] = byte(tag)
	pad := nd.Bytes("pad", 2)
	stream[1], stream[n-1] = pad[0], pad[1]
	vfStreams = append(vfStreams, stream)
	vfOrigs = append(vfOrigs, append([]byte(nil), w.buf...))
	_, err := w.w.Write(stream)
	return err
}

type vfStubReader struct {
	r    io.Reader
	out  []byte
	pos  int
	done bool
}

func (r *vfStubReader) Read(p []byte) (int, error) {
	if !r.done {
		r.done = true
		var in []byte
		buf := make([]byte, 64)
		for {
			n, err := r.r.Read(buf)
			in = append(in, buf[:n]...)
			if err != nil {
				break
			}
		}
		if len(in) == 0 || int(in[0]) >= len(vfStreams) || !vfBytesEq(in, vfStreams[in[0]]) {
			return 0, errors.New("vf stub: corrupt stream")
		}
		r.out = vfOrigs[in[0]]
	}
	if r.pos >= len(r.out) {
		return 0, io.EOF
	}
	avail := r.out[r.pos:]
	if !vfStubFixed && r.pos == 0 && len(avail) > 1 && len(p) >= len(avail) && nd.Bool("decompressor-delivers-a-short-first-read") {
		// io.Reader: a Read may return fewer bytes than asked for without an error (the real
		// decompressor does so at each of its 64 KiB block boundaries); only io.EOF ends the stream
		avail = avail[:len(avail)/2]
		nd.Cover("short-read")
	}
	n := copy(p, avail)
	r.pos += n
	return n, nil
}

func vfInstallStub() {
	compressor.UnRegister(redis.Compression_SNAPPY.String())
	compressor.Register(redis.Compression_SNAPPY.String(), vfStub{})
	vfStreams, vfOrigs = nil, nil
	vfStubFixed = false
}

func vfCompressCfg(enable bool, threshold uint32) *config {
	cfg := vfConfig()
	cfg.ProtocolOptions = &service.Config_RedisOption{RedisOption: &protocol.RedisOption{
		Compression: &redis.Compression{Enable: enable, Algorithm: redis.Compression_SNAPPY, Threshold: threshold}}}
	return cfg
}

// vfReconfigure applies a configuration update the way the processor does (OnSvcConfigUpdate ->
// config.Update with a new service.Config object): filters created earlier must follow it.
func vfReconfigure(cfg *config, enable bool, threshold uint32) {
	n := vfCompressCfg(enable, threshold)
	cfg.Update(n.Raw())
}

// vfStartCfg is the configuration a connection (and its filter) may have been created under,
// before the configuration the harness then switches to: no protocol options at all, options
// without a compression section, compression off, or compression on.
func vfStartCfg() *config {
	switch nd.Concrete(nd.IntRange("start-config", 0, 3)) {
	case 0:
		return vfConfig()
	case 1:
		cfg := vfConfig()
		cfg.ProtocolOptions = &service.Config_RedisOption{RedisOption: &protocol.RedisOption{}}
		return cfg
	case 2:
		return vfCompressCfg(false, 7)
	}
	return vfCompressCfg(true, 1)
}

var vfHdr = []byte{'(', 'P', '$', 0, '\r', '\n'}

// vfIsFrameOf: b == header ‖ C(orig) for a stream the stub produced from orig.
func vfIsFrameOf(b, orig []byte) bool {
	if len(b) < 7 || !vfBytesEq(b[:6], vfHdr) {
		return false
	}
	tag := int(b[6])
	return tag < len(vfStreams) && vfBytesEq(b[6:], vfStreams[tag]) && vfBytesEq(vfOrigs[tag], orig)
}

type vfCmdShape struct {
	cmd    string
	args   int   // number of arguments after the command word
	values []int // argument indexes (in the RESP array) holding stored values
}

var vfWriteShapes = []vfCmdShape{
	{"set", 2, []int{2}}, {"SET", 2, []int{2}}, {"getset", 2, []int{2}}, {"setnx", 2, []int{2}},
	{"setex", 3, []int{3}}, {"psetex", 3, []int{3}},
	{"hset", 3, []int{3}}, {"hset", 5, []int{3, 5}}, {"hmset", 5, []int{3, 5}}, {"hsetnx", 3, []int{3}},
	{"set", 4, []int{2}}, // SET k v EX ttl: options must stay untouched
	{"get", 1, nil}, {"hget", 2, nil}, {"lpush", 2, nil}, {"sadd", 2, nil}, {"del", 2, nil},
}

var vfLens = []int{0, 3, 24, 25, 31}

func vfArgs(s vfCmdShape) ([]RespValue, [][]byte) {
	arr := []RespValue{*newBulkString(s.cmd)}
	var orig [][]byte
	for i := 1; i <= s.args; i++ {
		isVal := false
		for _, v := range s.values {
			if v == i {
				isVal = true
			}
		}
		var b []byte
		switch {
		case isVal:
			b = nd.Bytes("v", vfLens[nd.Concrete(nd.Choice("vlen", len(vfLens)))])
		case s.cmd == "set" && s.args == 4 && i == 3:
			b = []byte("EX")
		case s.cmd == "set" && s.args == 4 && i == 4:
			b = []byte("1000000000000000000") // a 19-digit TTL, the longest valid one
		case i == 1:
			b = nd.Bytes("k", 4)
		default:
			b = nd.Bytes("f", 26) // fields / TTL text / members: long enough to be compressible
		}
		orig = append(orig, append([]byte(nil), b...))
		arr = append(arr, *newBulkBytes(b))
	}
	return arr, orig
}

// VfC13_Write: exactly the documented value positions are touched; a touched value becomes
// header ‖ C(v) only when that is strictly shorter than v and v is at least `threshold` long;
// keys, fields, TTLs and options never change.
func VfC13_Write() {
	vfInstallStub()
	s := vfWriteShapes[nd.Concrete(nd.Choice("shape", len(vfWriteShapes)))]
	threshold := uint32(nd.IntRange("threshold", 1, 40))
	cfg := vfCompressCfg(true, threshold)
	arr, orig := vfArgs(s)
	req := newSimpleRequest(newArray(arr...))
	chain := newRequestFilterChain()
	chain.AddFilter(newHotKeyFilter(nil))
	chain.AddFilter(newCompressFilter(cfg))
	nd.PanicLabel("compress-filter")
	st := chain.Do(req)
	nd.Assert(st == Continue && !vfDone(req.done), "a supported write command continues to the backend")
	body := req.Body().Array
	nd.Assert(len(body) == 1+s.args, "argument count unchanged")
	for i := 1; i <= s.args && i < len(body); i++ {
		isVal := false
		for _, v := range s.values {
			if v == i {
				isVal = true
			}
		}
		now, was := body[i].Text, orig[i-1]
		if !isVal {
			nd.Assert(vfBytesEq(now, was), "keys, fields, TTLs and options are never changed")
			continue
		}
		if vfBytesEq(now, was) {
			continue
		}
		nd.Cover("compressed")
		nd.Assert(vfIsFrameOf(now, was), "a changed value is the header followed by a stream that decompresses to the original")
		nd.Assert(len(now) < len(was), "the frame is used only when strictly shorter than the original")
		nd.Assert(uint32(len(was)) >= threshold, "values below the threshold are left alone")
	}
}

// VfC13_ReadBack: what was written through the filter reads back byte-identical through the
// filter, also when compression was switched off in between, for values not starting with the header.
func VfC13_ReadBack() {
	vfInstallStub()
	threshold := uint32(nd.IntRange("threshold", 1, 40))
	cfg := vfStartCfg()
	f := newCompressFilter(cfg) // the connection's filter exists before compression is configured
	vfReconfigure(cfg, true, threshold)
	vlen := vfLens[nd.Concrete(nd.Choice("vlen", len(vfLens)))]
	v := nd.Bytes("v", vlen)
	if vlen >= 3 {
		nd.Assume(!(v[0] == '(' && v[1] == 'P' && v[2] == '$'))
	}
	orig := append([]byte(nil), v...)
	wr := newSimpleRequest(newArray(*newBulkString("set"), *newBulkString("k"), *newBulkBytes(v)))
	nd.PanicLabel("compress-filter")
	passes := nd.Concrete(nd.IntRange("passes", 1, nd.Param("passes", 2))) // 2 = the write was redirected and filtered again
	for p := 0; p < passes; p++ {
		f.Do("set", wr)
	}
	stored := append([]byte(nil), wr.Body().Array[2].Text...)
	nd.Class("second-pass-reframes", passes == 2)
	if nd.Bool("disable") {
		if nd.Bool("by-update") {
			vfReconfigure(cfg, false, threshold)
		} else {
			cfg.GetRedisOption().Compression.Enable = false
		}
	}
	rd := newSimpleRequest(newArray(*newBulkString("get"), *newBulkString("k")))
	f.Do("get", rd)
	rd.SetResponse(newBulkBytes(stored))
	nd.Assert(vfBytesEq(rd.Response().Text, orig), "a value written through the proxy reads back byte-identical")
	if !vfBytesEq(stored, orig) {
		nd.Cover("was-compressed")
	}
}

// VfC13_HashReadBack: a hash write with two field/value pairs (HMSET, HSET) whose values have
// independent lengths around the threshold passes the filter once or twice (the write was
// redirected); each value then reads back through the filter (HGET, HMGET) byte-identical -
// whichever of the two was compressed on the first pass.
func VfC13_HashReadBack() {
	vfInstallStub()
	vfStubFixed = true
	threshold := uint32([]int{8, 20, 30}[nd.Concrete(nd.Choice("threshold", 3))])
	cfg := vfStartCfg()
	f := newCompressFilter(cfg)
	vfReconfigure(cfg, true, threshold)
	cmd := []string{"hmset", "hset"}[nd.Concrete(nd.Choice("cmd", 2))]
	var vals, origs [2][]byte
	// one short value (never worth compressing) and one long value, in either order
	longFirst := nd.Bool("long-value-first")
	for i := 0; i < 2; i++ {
		vlen := 3
		if (i == 0) == longFirst {
			vlen = 31
		}
		v := nd.Bytes("v", vlen)
		nd.Assume(!(v[0] == '(' && v[1] == 'P' && v[2] == '$'))
		vals[i], origs[i] = v, append([]byte(nil), v...)
	}
	wr := newSimpleRequest(newArray(*newBulkString(cmd), *newBulkString("h"), *newBulkString("f1"), *newBulkBytes(vals[0]), *newBulkString("f2"), *newBulkBytes(vals[1])))
	nd.PanicLabel("compress-filter")
	for p := 0; p < 2; p++ { // the write is redirected once: it passes the filter twice
		f.Do(cmd, wr)
	}
	b := wr.Body().Array
	nd.Assert(len(b) == 6 && vfBytesEq(b[1].Text, []byte("h")) && vfBytesEq(b[2].Text, []byte("f1")) && vfBytesEq(b[4].Text, []byte("f2")), "keys and fields are never changed")
	stored := [2][]byte{append([]byte(nil), b[3].Text...), append([]byte(nil), b[5].Text...)}
	for i := 0; i < 2; i++ {
		rd := newSimpleRequest(newArray(*newBulkString("hget"), *newBulkString("h"), *newBulkString([]string{"f1", "f2"}[i])))
		f.Do("hget", rd)
		rd.SetResponse(newBulkBytes(append([]byte(nil), stored[i]...)))
		nd.Assert(vfBytesEq(rd.Response().Text, origs[i]), "every value of a multi-pair hash write reads back byte-identical, also when the write passed the filter twice")
	}
	if !vfBytesEq(stored[1], origs[1]) && vfBytesEq(stored[0], origs[0]) {
		nd.Cover("only-the-second-was-compressed")
	}
}

// VfC13_PoolIndependence: the pooled buffers the filter works with are private to one call: a
// value that went through the filter keeps its bytes while other values are compressed and
// decompressed afterwards (the pool hands the same buffer out again) - a write that is resent
// after a redirection carries exactly what the filter produced for it.
func VfC13_PoolIndependence() {
	vfInstallStub()
	nd.PoolReuse(true)
	threshold := uint32(nd.IntRange("threshold", 1, 24))
	cfg := vfCompressCfg(true, threshold)
	f := newCompressFilter(cfg)
	v1 := nd.Bytes("v1", vfLens[nd.Concrete(nd.IntRange("vlen1", 2, 4))])
	v2 := nd.Bytes("v2", vfLens[nd.Concrete(nd.IntRange("vlen2", 2, 4))])
	// the property speaks of values that do not themselves start with the compression header
	nd.Assume(!(v1[0] == '(' && v1[1] == 'P' && v1[2] == '$'))
	nd.Assume(!(v2[0] == '(' && v2[1] == 'P' && v2[2] == '$'))
	o1, o2 := append([]byte(nil), v1...), append([]byte(nil), v2...)
	w1 := newSimpleRequest(newArray(*newBulkString("set"), *newBulkString("k1"), *newBulkBytes(v1)))
	w2 := newSimpleRequest(newArray(*newBulkString("set"), *newBulkString("k2"), *newBulkBytes(v2)))
	nd.PanicLabel("compress-filter")
	f.Do("set", w1)
	after1 := append([]byte(nil), w1.Body().Array[2].Text...)
	nd.Assert(vfBytesEq(after1, o1) || vfIsFrameOf(after1, o1), "the first value is left alone or framed")
	f.Do("set", w2) // other traffic on the same filter: compresses into the recycled buffer
	if nd.Bool("a-reply-is-decompressed-too") {
		rd := newSimpleRequest(newArray(*newBulkString("get"), *newBulkString("k2")))
		f.Do("get", rd)
		rd.SetResponse(newBulkBytes(append([]byte(nil), w2.Body().Array[2].Text...)))
		nd.Assert(vfBytesEq(rd.Response().Text, o2), "the second value reads back")
	}
	now1 := w1.Body().Array[2].Text
	nd.Assert(vfBytesEq(now1, after1), "a filtered value keeps its bytes while other values go through the filter (pooled buffers are not shared between requests)")
	if !vfBytesEq(after1, o1) {
		nd.Cover("first-was-compressed")
	}
}

// VfC13_ConcurrentUse: the filter of one backend connection is used by that connection's writer
// (compressing the value of a SET) and by its reader (decompressing the reply to an earlier GET) at
// the same time; their accesses to the filter object may interleave at every load and store.
// Whatever the interleaving, the reply reads back as the value that was stored and the write
// carries its own value, plain or framed.
func VfC13_ConcurrentUse() {
	vfInstallStub()
	vfStubFixed = true
	cfg := vfCompressCfg(true, 10)
	f0 := newCompressFilter(cfg) // another connection, earlier: produced the frame that is read back now
	o2 := nd.Bytes("stored", 31)
	nd.Assume(!(o2[0] == '(' && o2[1] == 'P' && o2[2] == '$'))
	w0 := newSimpleRequest(newArray(*newBulkString("set"), *newBulkString("k2"), *newBulkBytes(append([]byte(nil), o2...))))
	f0.Do("set", w0)
	frame2 := append([]byte(nil), w0.Body().Array[2].Text...)
	nd.Assume(vfIsFrameOf(frame2, o2)) // the stored value was framed
	f := newCompressFilter(cfg)
	o1 := nd.Bytes("written", 31)
	nd.Assume(!(o1[0] == '(' && o1[1] == 'P' && o1[2] == '$'))
	w := newSimpleRequest(newArray(*newBulkString("set"), *newBulkString("k1"), *newBulkBytes(append([]byte(nil), o1...))))
	rd := newSimpleRequest(newArray(*newBulkString("get"), *newBulkString("k2")))
	f.Do("get", rd) // the GET was sent earlier; its reply arrives now
	nd.PanicLabel("compress-filter")
	nd.Watch(f)
	go func() { f.Do("set", w) }()
	go func() { rd.SetResponse(newBulkBytes(frame2)) }()
	nd.Quiesce()
	nd.Assert(vfDone(rd.done) && vfBytesEq(rd.Response().Text, o2), "a reply decompressed while the same connection compresses a write reads back as the stored value")
	now := w.Body().Array[2].Text
	nd.Assert(vfBytesEq(now, o1) || vfIsFrameOf(now, o1), "a write compressed while the same connection decompresses a reply carries its own value")
	nd.Cover("used-concurrently")
}

// VfC13_Decompress: Decompress on arbitrary reply values: text that is not a frame the compressor
// produced (wrong magic, unknown algorithm byte, corrupt stream, short header) is left untouched;
// arrays are handled element-wise; never a crash.
func VfC13_Decompress() {
	vfInstallStub()
	f := &compressFilter{cfg: vfCompressCfg(false, 1)}
	l := nd.Concrete(nd.IntRange("len", 0, nd.Param("maxlen", 9)))
	t := nd.Bytes("t", l)
	orig := append([]byte(nil), t...)
	inner := newBulkBytes(t)
	var v *RespValue
	switch nd.Concrete(nd.IntRange("wrap", 0, 2)) {
	case 0:
		v = inner
	case 1:
		v = newArray(*inner, *newInteger(1))
	case 2:
		v = newArray(*newArray(*inner), RespValue{Type: Error, Text: []byte("(P$x")})
	}
	nd.PanicLabel("decompress")
	f.Decompress(v)
	for v.Type == Array {
		v = &v.Array[0]
	}
	nd.Assert(vfBytesEq(v.Text, orig), "text that is not a frame produced by the compressor is left untouched")
}

// VfC13_Banned: commands documented as disabled under compression are rejected without reaching
// the backend, in any letter case; with compression disabled they pass.
func VfC13_Banned() {
	vfInstallStub()
	banned := []string{"append", "eval", "setbit", "getbit", "setrange", "getrange"}
	name := []byte(banned[nd.Concrete(nd.Choice("cmd", len(banned)))])
	for i := range name {
		name[i] -= 32 * (nd.Byte("upper") & 1)
	}
	enable := nd.Bool("enable")
	cfg := vfStartCfg() // what the connection was created under
	req := newSimpleRequest(newArray(*newBulkBytes(name), *newBulkString("k"), *newBulkString("1"), *newBulkString("v")))
	chain := newRequestFilterChain()
	chain.AddFilter(newCompressFilter(cfg))
	vfReconfigure(cfg, enable, 1) // the configuration in force when the command arrives
	nd.PanicLabel("compress-filter")
	st := chain.Do(req)
	if enable {
		nd.Assert(st == Stop && vfDone(req.done) && req.Response().Type == Error, "a command disabled under compression is rejected and does not reach a backend")
	} else {
		nd.Assert(st == Continue && !vfDone(req.done), "with compression off the command passes")
	}
}

// VfC13_Hooks: every command that returns stored string or hash values gets the decompression
// hook whenever a compression section exists (enabled or not), so values written earlier read back.
func VfC13_Hooks() {
	vfInstallStub()
	returning := []string{"get", "getset", "hget", "hgetall", "hmget", "hvals", "GET", "HGetAll", "hscan", "HSCAN"}
	cmd := returning[nd.Concrete(nd.Choice("cmd", len(returning)))]
	enable := nd.Bool("enable")
	cfg := vfCompressCfg(true, 1)
	// produce one real frame through the write path
	val := nd.Bytes("v", 30)
	nd.Assume(!(val[0] == '(' && val[1] == 'P' && val[2] == '$'))
	orig := append([]byte(nil), val...)
	wr := newSimpleRequest(newArray(*newBulkString("set"), *newBulkString("k"), *newBulkBytes(val)))
	newCompressFilter(cfg).Do("set", wr)
	frame := append([]byte(nil), wr.Body().Array[2].Text...)
	cfg.GetRedisOption().Compression.Enable = enable
	rd := newSimpleRequest(newArray(*newBulkString(cmd), *newBulkString("k"), *newBulkString("f")))
	chain := newRequestFilterChain()
	chain.AddFilter(newCompressFilter(cfg))
	nd.PanicLabel("compress-filter")
	chain.Do(rd)
	if vfDone(rd.done) {
		return
	}
	switch nd.Concrete(nd.IntRange("reply-shape", 0, 2)) {
	case 0: // flat array (HGETALL, HMGET, HVALS)
		rd.SetResponse(newArray(*newBulkBytes(frame), *newBulkBytes([]byte("plain"))))
		nd.Assert(vfBytesEq(rd.Response().Array[0].Text, orig), "replies of value-returning commands are decompressed")
		nd.Assert(vfBytesEq(rd.Response().Array[1].Text, []byte("plain")), "plain values in the same reply are untouched")
	case 1: // values one level deeper (HSCAN: [cursor, [field, value, ...]])
		rd.SetResponse(newArray(*newBulkString("0"), *newArray(*newBulkString("f"), *newBulkBytes(frame), *newBulkString("g"), *newBulkBytes([]byte("plain")))))
		in := rd.Response().Array[1].Array
		nd.Assert(vfBytesEq(in[1].Text, orig), "values nested one level deeper in the reply (HSCAN) are decompressed too")
		nd.Assert(vfBytesEq(in[3].Text, []byte("plain")) && vfBytesEq(rd.Response().Array[0].Text, []byte("0")), "cursor, fields and plain values are untouched")
		nd.Cover("nested-reply")
	case 2: // a single bulk string (GET, HGET, GETSET)
		rd.SetResponse(newBulkBytes(frame))
		nd.Assert(vfBytesEq(rd.Response().Text, orig), "a bulk reply is decompressed")
	}
}
