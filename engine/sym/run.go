package sym

import (
	"fmt"
	"os"
	"time"

	"golang.org/x/tools/go/ssa"
)

func (e *Engine) newResult(name string) *Result {
	return &Result{Harness: name, PathsEnded: map[string]int{}, Obligations: map[string]*Obligation{}, Covers: map[string]int{},
		Functions: map[string]int{}, Stubs: map[string]int{}, Assumed: map[string]int{}, Params: map[string]int{}}
}

// Run executes the harness function symbolically and explores all paths.
func (e *Engine) Run(fn *ssa.Function) *Result {
	t0 := time.Now()
	e.res = e.newResult(fn.String())
	st := e.newState()
	th := &Thread{ID: 0, Name: "harness"}
	st.Threads = []*Thread{th}
	func() {
		defer func() {
			if r := recover(); r != nil {
				if a, ok := r.(abort); ok {
					e.res.Unsupported = append(e.res.Unsupported, a.kind+": "+a.msg)
					return
				}
				panic(r)
			}
		}()
		e.pushFrame(st, th, fn, nil, nil, nil)
		e.work = []*State{st}
	}()
	var firstUnlisted time.Time
	for len(e.work) > 0 {
		if e.res.Paths >= e.Opt.MaxPaths {
			e.res.Unwinds = append(e.res.Unwinds, fmt.Sprintf("path limit %d reached with %d states pending", e.Opt.MaxPaths, len(e.work)))
			break
		}
		if e.Opt.StopAtFirst && len(e.res.Findings) > 0 {
			break
		}
		if e.Opt.WallLimit > 0 && time.Since(t0) > e.Opt.WallLimit {
			// a changed tree can make the path space explode: give up (inconclusive unless a
			// counterexample was found already) instead of running for hours
			e.res.Unwinds = append(e.res.Unwinds, fmt.Sprintf("wall-clock limit %v reached with %d states pending", e.Opt.WallLimit, len(e.work)))
			break
		}
		if e.Opt.GraceAfterFinding > 0 {
			// a counterexample that is not a listed finding decides the obligation (violated, if it
			// replays); the exploration goes on for a while to collect other counterexamples, but a
			// changed tree can make the remaining path space much larger than the registered one
			if firstUnlisted.IsZero() {
				for _, f := range e.res.Findings {
					if !f.Known {
						firstUnlisted = time.Now()
						break
					}
				}
			} else if time.Since(firstUnlisted) > e.Opt.GraceAfterFinding {
				e.res.StoppedEarly = fmt.Sprintf("exploration stopped %v after the first counterexample with %d states pending", e.Opt.GraceAfterFinding, len(e.work))
				break
			}
		}
		s := e.work[len(e.work)-1]
		e.work = e.work[:len(e.work)-1]
		e.runPath(s)
	}
	e.res.NSat, e.res.NUnsat, e.res.NUnknown = e.S.NSat, e.S.NUnsat, e.S.NUnknown
	e.res.SolverTime = e.S.Time
	e.res.SolverErrors = e.S.Errors
	e.res.Wall = time.Since(t0)
	return e.res
}

func (e *Engine) runPath(st *State) {
	e.res.Paths++
	e.curTimerFires = st.TimerFired
	defer func() {
		for l := range st.Covers {
			e.res.Covers[l]++
		}
		if r := recover(); r != nil {
			a, ok := r.(abort)
			if !ok {
				fmt.Fprintf(os.Stderr, "engine panic at %s\n", e.safePos(st))
				for _, s := range e.safeStack(st) {
					fmt.Fprintln(os.Stderr, "   ", s)
				}
				panic(r)
			}
			e.res.PathsEnded[a.kind]++
			switch a.kind {
			case "unsupported":
				e.res.Unsupported = append(e.res.Unsupported, a.msg+" @ "+e.safePos(st))
			case "unwind", "steps":
				e.res.Unwinds = append(e.res.Unwinds, a.msg)
			}
			if e.Opt.Verbose > 1 {
				fmt.Fprintf(os.Stderr, "path %d ended: %s: %s (steps %d, symbr %d)\n", e.res.Paths, a.kind, a.msg, st.Steps, st.SymBr)
			}
		}
	}()
	for {
		if st.NeedSched {
			st.decided = st.decided[:0]
			e.reschedule(st, "")
			st.NeedSched = false
			if e.Opt.Preempt >= 0 && e.Opt.Dedup && len(st.replay) == 0 {
				if d, ok := e.digest(st); ok {
					if e.seen == nil {
						e.seen = map[string]bool{}
					}
					if e.seen[d] {
						e.res.Merged++
						panic(abort{"merged", "state already explored on another schedule"})
					}
					e.seen[d] = true
				}
			}
		}
		e.step(st)
		if st.Steps > e.Opt.MaxSteps {
			panic(abort{"steps", fmt.Sprintf("step limit %d reached at %s", e.Opt.MaxSteps, e.instrPos(st))})
		}
		if st.SymBr > e.Opt.MaxSymBranch {
			panic(abort{"unwind", fmt.Sprintf("symbolic-branch bound %d reached at %s", e.Opt.MaxSymBranch, e.instrPos(st))})
		}
	}
}

func (e *Engine) safePos(st *State) (p string) {
	defer func() {
		if recover() != nil {
			p = "?"
		}
	}()
	return e.instrPos(st)
}
func (e *Engine) safeStack(st *State) (s []string) {
	defer func() { recover() }()
	return e.stack(st)
}
