package sym

import (
	"go/types"

	"golang.org/x/tools/go/ssa"
	"vf/smt"
)

// Time model: time.Now() returns Time{wall: 0, ext: s, loc: nil} with s a fresh symbolic number of
// seconds (non-decreasing over successive calls, in a range where the real methods do not
// overflow). UnixNano/Since/Sub return fresh symbolic values (non-negative for Since).
// Timer / Ticker / After channels "may fire" whenever they are examined, at most a bounded number
// of times (Timer: once per arming; Ticker: TimerFires times).

const TimerFires = 2

// MaxTimerFires bounds the total number of timer/ticker firings on one path, so that retry loops
// driven by timers cannot spin forever and the system reaches quiescence (a stated bound).
const MaxTimerFires = 4

func (e *Engine) timeType() types.Type { return e.lookupType("time", "Time") }

func (e *Engine) freshNow(st *State) Value {
	c := e.C
	if st.ConcreteClock {
		st.ClockTick++
		return Struct{[]Value{e.C.BV(0, 64), e.i64(uint64(62135596800 + 1700000000 + st.ClockTick)), Ptr{}}}
	}
	s := e.ndVar(st, "time.now", 64, true)
	lo := int64(62135596800)        // 1970
	hi := int64(62135596800 + 1<<33) // ~ year 2242
	cond := c.And(c.Sge(s, e.i64(uint64(lo))), c.Sle(s, e.i64(uint64(hi))))
	if st.LastNow != nil {
		cond = c.And(cond, c.Sge(s, st.LastNow))
	}
	e.assertPC(st, cond)
	if st.Model != nil {
		// extend the model with a value satisfying the constraint
		v := uint64(lo)
		if st.LastNow != nil {
			if lv, ok := e.evalModel(st, st.LastNow); ok {
				v = lv
			}
		}
		m := make(map[string]uint64, len(st.Model)+1)
		for k, x := range st.Model {
			m[k] = x
		}
		m[s.Name] = v
		st.Model = m
	}
	st.LastNow = s
	return Struct{[]Value{e.C.BV(0, 64), s, Ptr{}}}
}

func (e *Engine) newTimerChan(st *State, fires int) ChanV {
	tt := e.timeType()
	id, o := e.newObj(st, ObjChan, types.NewChan(types.SendRecv, tt))
	o.ChCap = 1
	o.Aux = map[string]Value{"timer": e.i64(uint64(fires))}
	return ChanV{id}
}

// timerReady reports whether a timer channel may deliver now.
func (e *Engine) timerReady(o *Object) bool {
	if o.Aux == nil || e.curTimerFires >= MaxTimerFires {
		return false
	}
	t, ok := o.Aux["timer"].(*smt.Term)
	return ok && t.Val > 0
}

func registerTime(e *Engine) {
	I := e.intr
	c := e.C
	I["time.Now"] = func(e *Engine, st *State, th *Thread, args []Value, call *ssa.CallCommon) (Value, bool) {
		return e.freshNow(st), true
	}
	I["(time.Time).UnixNano"] = func(e *Engine, st *State, th *Thread, args []Value, call *ssa.CallCommon) (Value, bool) {
		if st.ConcreteClock {
			st.ClockTick++
			return e.i64(uint64(1700000000000000000 + st.ClockTick)), true
		}
		// defined only for instants between 1970 and 2262: non-negative
		v := e.ndVar(st, "time.unixnano", 64, true)
		e.addPC(st, e.C.Sge(v, e.i64(0)))
		return v, true
	}
	dur := func(e *Engine, st *State) Value {
		if st.ConcreteClock {
			return e.i64(1000000) // 1ms
		}
		d := e.ndVar(st, "time.duration", 64, true)
		e.addPC(st, c.And(c.Sge(d, e.i64(0)), c.Sle(d, e.i64(1<<50))))
		return d
	}
	// under the concrete clock instants are {wall: 0, ext: seconds}: the difference of two of them
	// is computed exactly (saturating like the library), so that code comparing elapsed time with
	// a time-out sees the time the harness let pass (nd.AdvanceClock)
	exact := func(e *Engine, a, b Value) (Value, bool) {
		as, ok1 := a.(Struct)
		bs, ok2 := b.(Struct)
		if !ok1 || !ok2 || len(as.F) < 2 || len(bs.F) < 2 {
			return nil, false
		}
		aw, ae, bw, be := as.F[0].(*smt.Term), as.F[1].(*smt.Term), bs.F[0].(*smt.Term), bs.F[1].(*smt.Term)
		if !aw.IsConst() || !ae.IsConst() || !bw.IsConst() || !be.IsConst() || aw.Val != 0 || bw.Val != 0 {
			return nil, false
		}
		d := int64(ae.Val) - int64(be.Val)
		const lim = int64(1<<63-1) / 1000000000
		switch {
		case d > lim:
			return e.i64(1<<63 - 1), true
		case d < -lim:
			return e.i64(1 << 63), true
		}
		return e.i64(uint64(d * 1000000000)), true
	}
	I["time.Since"] = func(e *Engine, st *State, th *Thread, args []Value, call *ssa.CallCommon) (Value, bool) {
		if st.ConcreteClock {
			if v, ok := exact(e, e.freshNow(st), args[0]); ok {
				return v, true
			}
		}
		return dur(e, st), true
	}
	I["(time.Time).Sub"] = func(e *Engine, st *State, th *Thread, args []Value, call *ssa.CallCommon) (Value, bool) {
		if st.ConcreteClock {
			if v, ok := exact(e, args[0], args[1]); ok {
				return v, true
			}
		}
		return dur(e, st), true
	}
	I["time.Sleep"] = func(e *Engine, st *State, th *Thread, args []Value, call *ssa.CallCommon) (Value, bool) {
		if e.schedPoint(st, th) {
			return nil, false
		}
		return nil, true
	}
	I["time.After"] = func(e *Engine, st *State, th *Thread, args []Value, call *ssa.CallCommon) (Value, bool) {
		return e.newTimerChan(st, 1), true
	}
	mkTimer := func(typ string, fires int) Intrinsic {
		return func(e *Engine, st *State, th *Thread, args []Value, call *ssa.CallCommon) (Value, bool) {
			tt := e.lookupType("time", typ)
			p := e.allocMem(st, tt)
			ch := e.newTimerChan(st, fires)
			cp := e.fieldCell(p, tt, "C")
			e.setCell(st, cp, ch)
			return p, true
		}
	}
	I["time.NewTimer"] = mkTimer("Timer", 1)
	I["time.NewTicker"] = mkTimer("Ticker", TimerFires)
	stop := func(typ string) Intrinsic {
		return func(e *Engine, st *State, th *Thread, args []Value, call *ssa.CallCommon) (Value, bool) {
			tt := e.lookupType("time", typ)
			cp := e.fieldCell(args[0].(Ptr), tt, "C")
			ch := e.obj(st, cp.Obj).Cells[cp.Off].(ChanV)
			o := e.wobj(st, ch.Obj)
			was := e.timerReady(o)
			o.Aux["timer"] = e.i64(0)
			return c.Bool(was), true
		}
	}
	I["(*time.Timer).Stop"] = stop("Timer")
	I["(*time.Ticker).Stop"] = func(e *Engine, st *State, th *Thread, args []Value, call *ssa.CallCommon) (Value, bool) {
		stop("Ticker")(e, st, th, args, call)
		return nil, true
	}
	I["(*time.Timer).Reset"] = func(e *Engine, st *State, th *Thread, args []Value, call *ssa.CallCommon) (Value, bool) {
		tt := e.lookupType("time", "Timer")
		cp := e.fieldCell(args[0].(Ptr), tt, "C")
		ch := e.obj(st, cp.Obj).Cells[cp.Off].(ChanV)
		o := e.wobj(st, ch.Obj)
		was := e.timerReady(o)
		o.Aux["timer"] = e.i64(1)
		return c.Bool(was), true
	}
	// math/rand: arbitrary values in the documented ranges
	I["math/rand.Int"] = func(e *Engine, st *State, th *Thread, args []Value, call *ssa.CallCommon) (Value, bool) {
		v := e.ndVar(st, "rand.int", 64, true)
		e.addPC(st, c.Sge(v, e.i64(0)))
		return v, true
	}
	I["math/rand.Intn"] = func(e *Engine, st *State, th *Thread, args []Value, call *ssa.CallCommon) (Value, bool) {
		n := args[0].(*smt.Term)
		e.oblige(st, c.Sgt(n, e.i64(0)), "panic", "rand-intn", "invalid argument to Intn")
		v := e.ndVar(st, "rand.intn", 64, true)
		e.addPC(st, c.And(c.Sge(v, e.i64(0)), c.Slt(v, n)))
		return v, true
	}
	// Float64 in [0,1): the two extreme outcomes (every comparison r < p with p in (0,1] can go
	// either way unless p == 1), explored by forking.
	f64 := func(e *Engine, st *State, th *Thread, args []Value, call *ssa.CallCommon) (Value, bool) {
		if e.chooseFree(st, 2, "rand.Float64: low or high") == 0 {
			return Float{0}, true
		}
		return Float{0.9999999999}, true
	}
	I["(*math/rand.Rand).Float64"] = f64
	I["math/rand.Float64"] = f64
	I["math/rand.Seed"] = func(e *Engine, st *State, th *Thread, args []Value, call *ssa.CallCommon) (Value, bool) { return nil, true }
}
