//vf:pkg proc/tcp
package tcp

import (
	"net"
	"time"

	"github.com/samaritan-proxy/samaritan/host"
	"github.com/samaritan-proxy/samaritan/pb/config/service"

	nd "github.com/samaritan-proxy/samaritan/vfnd"
)

// VfC06_Selection: an accepted connection is relayed to a host that is, at selection time, a
// healthy member of the preferred tier; with no usable host nothing is dialled and the handler
// returns (the listener then closes the client); a failed dial leaks no counters; after the relay
// ends all upstream gauges are back to zero (C20.c).
func VfC06_Selection() {
	bufSize = 4
	hs := []*host.Host{host.New("m1:1"), host.New("m2:1"), host.NewWithType("b1:1", host.TypeBackup)}
	policy := service.LoadBalancePolicy(nd.Concrete(nd.IntRange("policy", 0, 2)))
	p := vfNewTCPProc(policy, hs...)
	for _, h := range hs {
		if nd.Bool("down") {
			p.hostSet.MarkHostUnhealthy(h)
		}
	}
	if nd.Bool("removed") {
		p.OnSvcHostRemove([]*host.Host{host.New("m1:1")})
	}
	var log []string
	var dialled []string
	dialOK := nd.Bool("dial-ok")
	backend := &vfConn{name: "backend", failAt: -1, slowWriteAt: -1, log: &log}
	client := &vfConn{name: "client", failAt: -1, slowWriteAt: -1, log: &log}
	fromClient, fromBackend := nd.Bytes("c2b", 3), nd.Bytes("b2c", 5)
	client.reads, backend.reads = [][]byte{fromClient}, [][]byte{fromBackend}
	oldDial := dialTimeout
	defer func() { dialTimeout = oldDial }()
	dialTimeout = func(network, address string, timeout time.Duration) (net.Conn, error) {
		dialled = append(dialled, address)
		if !dialOK {
			return nil, vfErrIO
		}
		return backend, nil
	}
	oldRand := 0
	_ = oldRand
	usable := p.hostSet.Healthy()
	nd.PanicLabel("handle-conn")
	p.HandleConn(client)
	if len(usable) == 0 {
		nd.Assert(len(dialled) == 0, "with no usable host nothing is dialled")
		nd.Cover("no-usable-host")
	} else {
		nd.Assert(len(dialled) == 1, "exactly one backend is dialled per connection")
		if len(dialled) == 1 {
			ok := false
			anyMain := false
			for _, h := range usable {
				if h.Addr == dialled[0] {
					ok = true
				}
				if h.Type == host.TypeMain {
					anyMain = true
				}
			}
			nd.Assert(ok, "the dialled host is a usable (healthy, current) host")
			nd.Assert(dialled[0] != "b1:1" || !anyMain, "backup hosts are used only when no main host is healthy")
			nd.Assert(!(dialled[0] == "m1:1" && !p.hostSet.Exist("m1:1")), "a removed host is never selected")
		}
	}
	if len(dialled) == 1 && dialOK {
		nd.Cover("relayed")
		if client.readErr == nil && backend.readErr == nil {
			nd.Assert(vfBytesEq(backend.written, fromClient) && vfBytesEq(client.written, fromBackend), "both directions are relayed completely")
		}
		nd.Assert(backend.closed, "the backend connection is closed when the relay ends")
	}
	// C20.c: conservation of the upstream connection statistics at quiescence
	u := p.stats.Upstream
	nd.Assert(u.CxActive.Value() == 0, "upstream active-connection gauge is zero when nothing is in flight")
	nd.Assert(u.CxTotal.Value() == u.CxDestroyTotal.Value(), "upstream total connections = destroyed connections at quiescence")
	for _, h := range hs {
		nd.Assert(h.ConnCount() == 0, "no host keeps a connection count when nothing is in flight")
	}
}

// VfC06_RemovalAfterReannounce: the controller announces an address again (a fresh host object,
// same or other type, as it builds them from endpoints) before a client connects; when the address
// is then removed from the service, the connection that was relayed to it is closed and the
// address is never selected again. The object a connection is relayed on is the set's member.
func VfC06_RemovalAfterReannounce() {
	nd.ConcreteClock(true)
	bufSize = 4
	var log []string
	p := vfNewTCPProc(0, host.New("m1:1"))
	switch nd.Concrete(nd.IntRange("reannounce", 0, 2)) {
	case 1:
		p.OnSvcHostAdd([]*host.Host{host.New("m1:1")})
	case 2:
		p.OnSvcHostAdd([]*host.Host{host.NewWithType("m1:1", host.TypeBackup)})
	}
	if nd.Bool("marked-down-and-up") {
		for _, h := range p.hostSet.All() {
			p.hostSet.MarkHostUnhealthy(h)
			nd.Assert(len(p.hostSet.Healthy()) == 0, "a member marked unhealthy is not usable (also after it was announced again)")
			p.hostSet.MarkHostHealthy(h)
		}
	}
	client := vfNewIdleConn("client", &log)
	backend := vfNewIdleConn("backend", &log)
	client.reads, backend.reads = [][]byte{[]byte("abc")}, [][]byte{[]byte("defgh")}
	oldDial := dialTimeout
	defer func() { dialTimeout = oldDial }()
	dials := 0
	dialTimeout = func(network, address string, timeout time.Duration) (net.Conn, error) { dials++; return backend, nil }
	returned := false
	go func() { p.HandleConn(client); returned = true }()
	nd.PanicLabel("handle-conn")
	nd.Quiesce()
	nd.Assert(dials == 1 && !returned, "the connection is relayed to the (re-announced) host")
	p.OnSvcHostRemove([]*host.Host{host.New("m1:1")})
	nd.Quiesce()
	nd.Assert(backend.closed && client.closed && returned, "established connections to a removed host are closed, also when the address had been announced again before")
	nd.Assert(len(p.hostSet.Healthy()) == 0 && !p.hostSet.Exist("m1:1"), "the removed address is no longer a member nor usable")
	nd.Cover("closed-on-removal")
}
