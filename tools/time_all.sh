#!/bin/bash
# runs every claimed quick check sequentially and prints wall + cpu time
for f in /verif/checks/C*.json; do p=$(basename $f .json); /usr/bin/time -f "$p wall=%e cpu=%U+%S" timeout 1800 /verif/bin/vf check $p --tier quick 2>&1 | tail -2; done
