#!/bin/bash
# usage: try_seed.sh <patch.diff> <property> [extra vf check args]
# applies a seeded change to /repo, runs the property's check, and restores /repo.
patch=$1; prop=$2; shift 2
cd /repo || exit 9
if ! git diff --quiet; then echo "/repo not clean"; exit 9; fi
git apply "$patch" || { echo "patch does not apply"; exit 9; }
trap 'git -C /repo checkout -- . ' EXIT
/verif/bin/vf check "$prop" "$@"
rc=$?
echo "exit=$rc"
exit $rc
