package sym

import (
	"go/types"

	"golang.org/x/tools/go/ssa"
	"vf/smt"
)

type ObjKind uint8

const (
	ObjMem ObjKind = iota
	ObjMap
	ObjChan
	ObjOpaque // engine-side state for intrinsics (mutex, once, pool, ...)
)

type MapEntry struct {
	K, V    Value
	Deleted bool
}

type Object struct {
	owner int
	Kind  ObjKind
	Typ   types.Type
	Cells []Value
	// map
	Ent []MapEntry
	// chan
	Buf    []Value
	ChCap  int
	Closed bool
	// opaque / sync state
	Aux map[string]Value
	Tag string
	Local bool // a non-escaping local variable (ssa.Alloc with Heap=false): never shared between threads
	// pending stores at symbolic indexes (newest last); see mem.go
	SymSt []SymStore
}

// SymStore is a store of Vals (one element of Stride cells) at element Idx of the region starting at cell Off.
type SymStore struct {
	Off, Stride, N int
	Idx            *smt.Term
	Vals           []Value
}

func (o *Object) clone(owner int) *Object {
	n := *o
	n.owner = owner
	if o.Cells != nil {
		n.Cells = append([]Value(nil), o.Cells...)
	}
	if o.Ent != nil {
		n.Ent = append([]MapEntry(nil), o.Ent...)
	}
	if o.Buf != nil {
		n.Buf = append([]Value(nil), o.Buf...)
	}
	if o.SymSt != nil {
		n.SymSt = append([]SymStore(nil), o.SymSt...)
	}
	if o.Aux != nil {
		n.Aux = make(map[string]Value, len(o.Aux))
		for k, v := range o.Aux {
			n.Aux[k] = v
		}
	}
	return &n
}

type deferred struct {
	fn   Value // Func or Iface method resolved
	args []Value
	call *ssa.CallCommon
}

type Frame struct {
	Fn       *ssa.Function
	Block    *ssa.BasicBlock
	Prev     *ssa.BasicBlock
	Idx      int
	Regs     []Value
	Defers   []deferred
	Result   Value // set by Return when running defers
	CallInst ssa.Value // call instruction in the caller awaiting the result (nil for go/defer/top)
	// panicking state is thread-level
	visits map[*ssa.BasicBlock]int
	// when the frame is a deferred call executed during RunDefers/panic: what to do after
	afterDefer bool
	recovering bool
	native     func(st *State, ret Value) // optional continuation invoked with the return value
}

func (f *Frame) clone() *Frame {
	n := *f
	n.Regs = append([]Value(nil), f.Regs...)
	if f.Defers != nil {
		n.Defers = append([]deferred(nil), f.Defers...)
	}
	if f.visits != nil {
		n.visits = make(map[*ssa.BasicBlock]int, len(f.visits))
		for k, v := range f.visits {
			n.visits[k] = v
		}
	}
	return &n
}

type ThreadStatus uint8

const (
	TRunnable ThreadStatus = iota
	TBlocked
	TDone
)

type Thread struct {
	ID        int
	Frames    []*Frame
	Status    ThreadStatus
	Panicking bool
	PanicVal  Value
	Recovered bool
	Name      string
	PanicMsg   string
	PanicPos   string
	PanicStack []string
	BlockEpoch int
	BlockWhy   string
	WaitRecv   int
	Ready      func(e *Engine, st *State) bool
	Quiesced   bool
	Yielded    bool
	TimerWait  bool // parked on a select whose only ready cases were timers that have "not fired yet" (nd.LazyTimers)
	TimerKick  bool // time has passed: the timer fires when the select is executed again
	kickStep   int
}

func (t *Thread) clone() *Thread {
	n := *t
	n.Frames = make([]*Frame, len(t.Frames))
	for i, f := range t.Frames {
		n.Frames[i] = f.clone()
	}
	return &n
}

func (t *Thread) top() *Frame { return t.Frames[len(t.Frames)-1] }

type NDVar struct {
	Name string
	T    *smt.Term
	Sign bool
}

// State is one path.
type State struct {
	id      int
	heap    map[int]*Object
	nextObj int
	Threads []*Thread
	Cur     int
	PC      []*smt.Term
	Vars    []NDVar
	ndCount map[string]int
	Model   map[string]uint64 // a model of PC if known (nil = unknown)
	// mid-instruction decisions
	decided []dec
	replay  []dec
	// bookkeeping
	Steps     int
	SymBr     int
	Covers    map[string]bool
	Notes     []Note
	Classes   []ClassDecl
	PanicLbl  string
	Trace     []string
	Depth     int
	schedHist []int
	Preempts  int
	Dead      bool
	Epoch     int
	LastNow   *smt.Term
	NoSched   bool
	noSchedStep int
	NeedSched bool
	PoolReuse bool
	YieldFrom int
	TimerFired int
	VisibleAtomics bool
	LazyTimers bool // a timer may also fire later than everything that is currently enabled (nd.LazyTimers)
	WatchAll bool // every load/store of a heap object is a scheduling point (nd.WatchAll)
	Watched []int // objects whose plain loads and stores are scheduling points (nd.Watch); shared, append-only
	ConcreteClock bool
	ClockTick int64
	StackLimit int // nd.StackLimit: a call stack deeper than this many frames is a stack overflow (fatal in Go)
	narrowCache map[int]int
	facts    map[int]bool
	factsVer int
	simpMemo map[int]*smt.Term
	simpVer  int
}

type dec struct {
	d   int
	val uint64
}

type Note struct {
	Label string
	T     *smt.Term
}
type ClassDecl struct {
	Label string
	Cond  *smt.Term
}

var stateSeq int

func (e *Engine) newState() *State {
	stateSeq++
	return &State{id: stateSeq, heap: map[int]*Object{}, nextObj: 1 << 40, ndCount: map[string]int{}, Covers: map[string]bool{}}
}

func (st *State) fork() *State {
	stateSeq++
	n := &State{
		id: stateSeq, nextObj: st.nextObj, Cur: st.Cur,
		Steps: st.Steps, SymBr: st.SymBr, PanicLbl: st.PanicLbl, Depth: st.Depth, Preempts: st.Preempts,
		LastNow: st.LastNow, Epoch: st.Epoch, NoSched: st.NoSched, noSchedStep: st.noSchedStep, NeedSched: st.NeedSched, PoolReuse: st.PoolReuse, YieldFrom: st.YieldFrom, TimerFired: st.TimerFired, VisibleAtomics: st.VisibleAtomics, ConcreteClock: st.ConcreteClock, ClockTick: st.ClockTick,
		Watched: st.Watched[:len(st.Watched):len(st.Watched)], WatchAll: st.WatchAll, LazyTimers: st.LazyTimers, StackLimit: st.StackLimit,
	}
	// the parent also needs a new id so that neither mutates shared objects in place
	stateSeq++
	st.id = stateSeq
	n.heap = make(map[int]*Object, len(st.heap))
	for k, v := range st.heap {
		n.heap[k] = v
	}
	n.Threads = make([]*Thread, len(st.Threads))
	for i, t := range st.Threads {
		n.Threads[i] = t.clone()
	}
	n.PC = append([]*smt.Term(nil), st.PC...)
	n.Vars = append([]NDVar(nil), st.Vars...)
	n.ndCount = make(map[string]int, len(st.ndCount))
	for k, v := range st.ndCount {
		n.ndCount[k] = v
	}
	n.Covers = make(map[string]bool, len(st.Covers))
	for k, v := range st.Covers {
		n.Covers[k] = v
	}
	n.Notes = append([]Note(nil), st.Notes...)
	n.Classes = append([]ClassDecl(nil), st.Classes...)
	n.Trace = append([]string(nil), st.Trace...)
	n.schedHist = append([]int(nil), st.schedHist...)
	n.Model = st.Model
	if st.facts != nil {
		n.facts = make(map[int]bool, len(st.facts))
		for k, v := range st.facts {
			n.facts[k] = v
		}
		n.factsVer = st.factsVer
	}
	return n
}

func (st *State) thread() *Thread { return st.Threads[st.Cur] }
func (st *State) frame() *Frame   { return st.thread().top() }

// obj returns the object for reading.
func (e *Engine) obj(st *State, id int) *Object {
	if o, ok := st.heap[id]; ok {
		return o
	}
	if o, ok := e.base[id]; ok {
		return o
	}
	return nil
}

// wobj returns the object for writing (copy-on-write).
func (e *Engine) wobj(st *State, id int) *Object {
	o, ok := st.heap[id]
	if ok && o.owner == st.id {
		return o
	}
	if !ok {
		o = e.base[id]
		if o == nil {
			return nil
		}
		if e.initMode {
			return o // package initialisers mutate the shared base heap
		}
	}
	n := o.clone(st.id)
	st.heap[id] = n
	return n
}

func (e *Engine) newObj(st *State, kind ObjKind, t types.Type) (int, *Object) {
	o := &Object{owner: st.id, Kind: kind, Typ: t}
	if e.initMode {
		e.nextBase++
		e.base[e.nextBase] = o
		return e.nextBase, o
	}
	st.nextObj++
	st.heap[st.nextObj] = o
	return st.nextObj, o
}

func (e *Engine) allocMem(st *State, t types.Type) Ptr {
	id, o := e.newObj(st, ObjMem, t)
	o.Cells = e.zeroCells(t)
	return Ptr{Obj: id}
}
