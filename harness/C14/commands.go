//vf:pkg proc/redis
package redis

import (
	"github.com/samaritan-proxy/samaritan/pb/config/protocol"
	"github.com/samaritan-proxy/samaritan/pb/config/protocol/redis"
	"github.com/samaritan-proxy/samaritan/pb/config/service"

	nd "github.com/samaritan-proxy/samaritan/vfnd"
)

// Golden reference lists (copies of /verif/ref/supported_commands.json and
// /verif/ref/redis5_command_flags.json, written from the documentation and the Redis 5.0 command
// table; deliberately NOT derived from the tree under check).
var vfRefForwarded = map[string]bool{}
var vfRefLocal = map[string]bool{}
var vfRefWrite = map[string]bool{}
var vfRefUnsupported = []string{"bgrewriteaof", "bgsave", "bitop", "blpop", "brpop", "brpoplpush", "client", "cluster", "command", "config", "dbsize", "debug", "discard", "echo", "evalsha", "exec", "flushall", "flushdb", "keys", "lastsave", "migrate", "monitor", "move", "msetnx", "multi", "object", "psubscribe", "publish", "pubsub", "punsubscribe", "randomkey", "rename", "renamenx", "role", "save", "script", "shutdown", "slaveof", "slowlog", "subscribe", "sync", "unsubscribe", "unwatch", "wait", "watch",
	"acl", "asking", "auth", "bitfield", "bzpopmax", "bzpopmin", "georadius_ro", "georadiusbymember_ro", "hello", "host:", "latency", "lolwut", "memory", "module", "pfdebug", "pfselftest", "post", "psync", "readonly", "readwrite", "replconf", "replicaof", "restore-asking", "substr", "swapdb", "xack", "xadd", "xclaim", "xdel", "xgroup", "xinfo", "xlen", "xpending", "xrange", "xread", "xreadgroup", "xrevrange", "xtrim", "zpopmax", "zpopmin"}

func init() {
	for _, c := range []string{"append", "bitcount", "bitpos", "decr", "decrby", "del", "dump", "eval", "exists", "expire", "expireat", "geoadd", "geodist", "geohash", "geopos", "georadius", "georadiusbymember", "get", "getbit", "getrange", "getset", "hdel", "hexists", "hget", "hgetall", "hincrby", "hincrbyfloat", "hkeys", "hlen", "hmget", "hmset", "hscan", "hset", "hsetnx", "hstrlen", "hvals", "incr", "incrby", "incrbyfloat", "lindex", "linsert", "llen", "lpop", "lpush", "lpushx", "lrange", "lrem", "lset", "ltrim", "mget", "mset", "persist", "pexpire", "pexpireat", "pfadd", "pfcount", "pfmerge", "psetex", "pttl", "restore", "rpop", "rpoplpush", "rpush", "rpushx", "sadd", "scan", "scard", "sdiff", "sdiffstore", "set", "setbit", "setex", "setnx", "setrange", "sinter", "sinterstore", "sismember", "smembers", "smove", "sort", "spop", "srandmember", "srem", "sscan", "strlen", "sunion", "sunionstore", "touch", "ttl", "type", "unlink", "zadd", "zcard", "zcount", "zincrby", "zinterstore", "zlexcount", "zrange", "zrangebylex", "zrangebyscore", "zrank", "zrem", "zremrangebylex", "zremrangebyrank", "zremrangebyscore", "zrevrange", "zrevrangebylex", "zrevrangebyscore", "zrevrank", "zscan", "zscore", "zunionstore"} {
		vfRefForwarded[c] = true
	}
	for _, c := range []string{"hotkey", "info", "ping", "quit", "select", "time"} {
		vfRefLocal[c] = true
	}
	for _, c := range []string{"append", "decr", "decrby", "del", "eval", "expire", "expireat", "geoadd", "georadius", "georadiusbymember", "getset", "hdel", "hincrby", "hincrbyfloat", "hmset", "hset", "hsetnx", "incr", "incrby", "incrbyfloat", "linsert", "lpop", "lpush", "lpushx", "lrem", "lset", "ltrim", "mset", "persist", "pexpire", "pexpireat", "pfadd", "pfmerge", "psetex", "restore", "rpop", "rpoplpush", "rpush", "rpushx", "sadd", "sdiffstore", "set", "setbit", "setex", "setnx", "setrange", "sinterstore", "smove", "sort", "spop", "srem", "sunionstore", "unlink", "zadd", "zincrby", "zinterstore", "zrem", "zremrangebylex", "zremrangebyrank", "zremrangebyscore", "zunionstore"} {
		vfRefWrite[c] = true
	}
}

func vfName(max int) []byte {
	n := nd.IntRange("namelen", 1, max)
	name := nd.Bytes("name", max)[:n]
	for i := 0; i < max; i++ {
		nd.Assume(name[:max][i] < 0x80) // ASCII names; others are outside the claim
	}
	return name
}

// VfC14_Dispatch: a command name (any ASCII bytes, any letter case) has a handler iff its
// lower-case form is in the reference supported set; everything else is answered with the
// "unsupported command" error and nothing is handed to a backend.
func VfC14_Dispatch() {
	p, clients := vfNewProc(nil, "10.0.0.1:7000")
	name := vfName(nd.Param("maxname", 17))
	raw := newRawRequest(newArray(*newBulkBytes(name), *newBulkString("k"), *newBulkString("v"), *newBulkString("w")))
	nd.PanicLabel("handleRequest")
	lower := string(vfLowerASCII(name))
	_, found := p.findHandler(string(name))
	supported := vfRefForwarded[lower] || vfRefLocal[lower]
	nd.Assert(found == supported, "a handler exists exactly for the reference supported commands, in any letter case")
	if !found && len(name) > 3 {
		// the reply for an unsupported name does not depend on the name's bytes beyond the
		// look-up above; it is executed for names of up to 3 arbitrary bytes here and for the 85
		// documented names in C14.a/known-unsupported (the sanitising loop of the error text forks
		// per byte, C01.a covers its content)
		nd.Cover("unsupported-name")
		return
	}
	if !found {
		p.handleRequest(raw)
		nd.Assert(vfDone(raw.done) && raw.Response().Type == Error && vfHasPrefix(raw.Response().Text, "ERR unsupported command"),
			"an unsupported command is answered with the unsupported-command error")
		nd.Assert(vfForwarded(clients) == 0, "nothing of an unsupported command reaches a backend")
		nd.Cover("unsupported-name")
	} else {
		nd.Cover("supported-name")
	}
}

// VfC14_KnownUnsupported: every command the documentation lists as unsupported (and the rest of
// the Redis 5 command list), in an arbitrary letter case, is rejected and not forwarded.
func VfC14_KnownUnsupported() {
	p, clients := vfNewProc(nil, "10.0.0.1:7000")
	idx := nd.Concrete(nd.Choice("cmd", len(vfRefUnsupported)))
	name := []byte(vfRefUnsupported[idx])
	if nd.Param("plaincase", 0) == 1 {
		// all lower or all upper case, concretely: cheap whatever way the code folds the case
		if nd.Bool("upper-case") {
			name = vfUpperASCII(name)
		}
	} else {
		for i := range name {
			if name[i] >= 'a' && name[i] <= 'z' {
				name[i] -= 32 * (nd.Byte("upper") & 1) // symbolic letter case, no fork
			}
		}
	}
	raw := newRawRequest(newArray(*newBulkBytes(name), *newBulkString("k"), *newBulkString("v")))
	nd.PanicLabel("handleRequest")
	p.handleRequest(raw)
	nd.Assert(vfDone(raw.done) && raw.Response().Type == Error, "a documented-unsupported command is answered with an error")
	nd.Assert(vfForwarded(clients) == 0, "a documented-unsupported command is not sent to any backend")
}

// VfC14_Local: PING, QUIT, SELECT (any case) are answered by the proxy itself.
func VfC14_Local() {
	p, clients := vfNewProc(nil, "10.0.0.1:7000")
	names := []string{"ping", "quit", "select"}
	name := []byte(names[nd.Concrete(nd.Choice("cmd", len(names)))])
	for i := range name {
		name[i] -= 32 * (nd.Byte("upper") & 1)
	}
	raw := newRawRequest(newArray(*newBulkBytes(name), *newBulkString("0")))
	nd.PanicLabel("handleRequest")
	p.handleRequest(raw)
	nd.Assert(vfDone(raw.done) && raw.Response().Type != Error, "local command is answered by the proxy")
	nd.Assert(vfForwarded(clients) == 0, "local command is not forwarded")
}

// VfC14_ReadOnlySet: a command the proxy treats as read-only (may go to replicas) is not a write
// command in Redis.
func VfC14_ReadOnlySet() {
	name := vfName(nd.Param("maxname", 17))
	req := newSimpleRequest(newArray(*newBulkBytes(name), *newBulkString("k")))
	lower := string(vfLowerASCII(name))
	nd.PanicLabel("IsReadOnly")
	ro := req.IsReadOnly()
	nd.Class("sort-or-geoadd", lower == "sort" || lower == "geoadd")
	if ro {
		nd.Cover("read-only")
		nd.Assert(!vfRefWrite[lower], "a command routed as read-only is not a write command in Redis")
		nd.Assert(vfRefForwarded[lower], "the read-only set only names supported commands")
	}
}

// VfC14_Role: writes go to the master owning the slot under every read strategy; reads go to the
// master, or to replicas of that master only, as the strategy permits.
func VfC14_Role() {
	strategy := redis.ReadStrategy(nd.Concrete(nd.IntRange("strategy", 0, 2)))
	cfg := newConfig(&service.Config{})
	cfg.ProtocolOptions = &service.Config_RedisOption{RedisOption: &protocol.RedisOption{ReadStrategy: strategy}}
	u, _ := vfNewUpstream(cfg, "10.0.0.9:7000")
	nrep := nd.Concrete(nd.IntRange("replicas", 0, 2))
	master := &instance{Addr: "master:1"}
	other := &instance{Addr: "othermaster:1", Replicas: []*instance{{Addr: "otherreplica:1"}}}
	reps := []string{"replica1:1", "replica2:1"}
	for i := 0; i < nrep; i++ {
		master.Replicas = append(master.Replicas, &instance{Addr: reps[i]})
	}
	key := []byte("somekey")
	slot := int(crc16(hashtag(key))) & (slotNum - 1)
	u.slots[slot] = master
	u.slots[(slot+1)%slotNum] = other
	cmds := []string{"set", "get", "GET", "hgetall", "del", "incr", "zadd", "lrange"}
	cmd := cmds[nd.Concrete(nd.Choice("cmd", len(cmds)))]
	req := newSimpleRequest(newArray(*newBulkString(cmd), *newBulkBytes(key)))
	nd.PanicLabel("chooseHost")
	addr, err := u.chooseHost(key, req)
	nd.Assert(err == nil, "a key of a loaded slot is routed")
	isRead := cmd == "get" || cmd == "GET" || cmd == "hgetall" || cmd == "lrange"
	isRep := false
	for i := 0; i < nrep; i++ {
		if addr == reps[i] {
			isRep = true
		}
	}
	nd.Assert(addr == "master:1" || isRep, "only the owning master or one of its replicas is chosen")
	if !isRead {
		nd.Assert(addr == "master:1", "a command that can modify data goes to the master under every read strategy")
	} else {
		switch strategy {
		case redis.ReadStrategy_MASTER:
			nd.Assert(addr == "master:1", "strategy MASTER reads from the master")
		case redis.ReadStrategy_REPLICA:
			nd.Assert(isRep || nrep == 0, "strategy REPLICA reads from a replica when the master has one")
			if isRep {
				nd.Cover("read-from-replica")
			}
		}
	}
}

// VfC14_FoldedName: command names are matched without regard to ASCII letter case only. Unicode
// has characters whose lower-case form is an ASCII letter (U+212A KELVIN SIGN -> k) and
// characters that "fold" to one (U+017F LONG S); a supported name with such a character in place
// of its k or s is a name no Redis server accepts, so it is not in the supported set: it must be
// answered with an error and nothing may be sent to a backend. (The name is concrete on each path:
// the case-folding functions are computed by the real standard-library code.)
func VfC14_FoldedName() {
	p, clients := vfNewProc(nil, "10.0.0.1:7000")
	var names []string
	for n := range vfRefForwarded {
		names = append(names, n)
	}
	for n := range vfRefLocal {
		names = append(names, n)
	}
	// deterministic order
	for i := 1; i < len(names); i++ {
		for j := i; j > 0 && names[j] < names[j-1]; j-- {
			names[j], names[j-1] = names[j-1], names[j]
		}
	}
	name := names[nd.Concrete(nd.Choice("cmd", len(names)))]
	pos := nd.Concrete(nd.IntRange("pos", 0, 16))
	nd.Assume(pos < len(name) && (name[pos] == 'k' || name[pos] == 's'))
	repl := "K"
	if name[pos] == 's' {
		repl = "ſ"
	}
	if nd.Bool("upper") {
		name = string(vfUpperASCII([]byte(name)))
	}
	mangled := name[:pos] + repl + name[pos+1:]
	raw := newRawRequest(newStringArray(mangled, "k", "v", "w"))
	nd.PanicLabel("handleRequest")
	p.handleRequest(raw)
	nd.Cover("folded-name")
	nd.Assert(vfForwarded(clients) == 0, "a name that only Unicode case folding maps to a supported command is not sent to any backend")
	nd.Assert(vfDone(raw.done) && raw.Response().Type == Error, "it is answered with an error")
}

func vfUpperASCII(b []byte) []byte {
	out := make([]byte, len(b))
	for i := range b {
		c := b[i]
		if c >= 'a' && c <= 'z' {
			c -= 32
		}
		out[i] = c
	}
	return out
}

// VfC14_RoleAfterRefresh: the routing table is built by the real refresh from a CLUSTER NODES reply
// with two masters that each have replicas (listed in an arbitrary order); then two or three read-only or
// write commands for keys of the two masters are routed one after the other under a symbolic read
// strategy and clock: every command goes to the master owning its key's slot or to one of THAT
// master's replicas (writes: the master) - also after earlier selections for the other master.
func VfC14_RoleAfterRefresh() {
	strategy := redis.ReadStrategy(nd.Concrete(nd.IntRange("strategy", 0, 2)))
	cfg := newConfig(&service.Config{})
	cfg.ProtocolOptions = &service.Config_RedisOption{RedisOption: &protocol.RedisOption{ReadStrategy: strategy}}
	seed := "10.0.0.9:7000"
	u, clients := vfNewUpstream(cfg, seed)
	kx, ky := "k596", "k10322" // slots 0 and 16383
	lines := []string{
		"idX 10.0.1.1:7000@17000 myself,master - 0 0 1 connected 0-8000\n",
		"idY 10.0.1.2:7000@17000 master - 0 0 2 connected 8001-16383\n",
		"idRX1 10.0.2.1:7000@17000 slave idX 0 0 1 connected\n",
		"idRX2 10.0.2.2:7000@17000 slave idX 0 0 1 connected\n",
		"idRY1 10.0.3.1:7000@17000 slave idY 0 0 2 connected\n",
	}
	text := ""
	if nd.Bool("replicas-listed-first") {
		text = lines[4] + lines[2] + lines[0] + lines[3] + lines[1]
	} else {
		text = lines[0] + lines[1] + lines[2] + lines[3] + lines[4]
	}
	done := make(chan error, 1)
	go func() { done <- u.doSlotsRefresh() }()
	nd.Quiesce()
	rq := vfTake(clients[seed])
	nd.Assert(rq != nil, "the refresh asks CLUSTER NODES")
	if rq == nil {
		return
	}
	rq.SetResponse(newBulkString(text))
	nd.Quiesce()
	nd.PanicLabel("role-after-refresh")
	group := map[string][]string{
		kx: {"10.0.1.1:7000", "10.0.2.1:7000", "10.0.2.2:7000"},
		ky: {"10.0.1.2:7000", "10.0.3.1:7000"},
	}
	for i := 0; i < nd.Param("selections", 3); i++ {
		key := []string{kx, ky}[nd.Concrete(nd.Choice("key", 2))]
		cmd := []string{"get", "set"}[nd.Concrete(nd.Choice("cmd", 2))]
		addr, err := u.chooseHost([]byte(key), newSimpleRequest(newStringArray(cmd, key)))
		nd.Assert(err == nil, "a key of a loaded slot is routed")
		g := group[key]
		in := false
		for _, a := range g {
			if a == addr {
				in = true
			}
		}
		nd.Assert(in, "a command goes to the master owning its key's slot or to one of that master's replicas, never to another master or its replicas")
		if cmd == "set" || strategy == redis.ReadStrategy_MASTER {
			nd.Assert(addr == g[0], "writes, and reads under strategy MASTER, go to the owning master")
		}
		if cmd == "get" && strategy == redis.ReadStrategy_REPLICA {
			nd.Assert(addr != g[0], "strategy REPLICA reads from a replica when the master has one")
		}
	}
	nd.Cover("routed-thrice")
}
