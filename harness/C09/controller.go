//vf:pkg controller
package controller

import (
	"github.com/samaritan-proxy/samaritan/config"
	"github.com/samaritan-proxy/samaritan/host"
	"github.com/samaritan-proxy/samaritan/pb/config/service"
	"github.com/samaritan-proxy/samaritan/proc"

	nd "github.com/samaritan-proxy/samaritan/vfnd"
)

// vfSlowProc is a processor double whose Stop takes time (it waits for its connections): it
// returns only after the harness lets it.
type vfSlowProc struct {
	vfProc
	stopping bool
	release  chan struct{}
}

func (p *vfSlowProc) Stop() error {
	p.stopping = true
	<-p.release
	p.stopped = true
	return nil
}

// VfC09_ControllerStop: the real controller loop (Start, handleEvent, Stop) with processors whose
// Stop takes time: services are added, 0..1 of them removed again, then the controller is stopped.
// When Controller.Stop has returned, every processor that was ever created has been stopped (its
// Stop has returned: port closed, connections closed, goroutines gone) - also one whose service
// was removed just before.
func VfC09_ControllerStop() {
	nd.ConcreteClock(true)
	store := config.VfNewStore()
	ctl, _ := New(store.Subscribe())
	oldNew := newProc
	defer func() { newProc = oldNew }()
	var created []*vfSlowProc
	release := make(chan struct{})
	newProc = func(name string, cfg *service.Config, hosts []*host.Host) (proc.Proc, error) {
		p := &vfSlowProc{vfProc: vfProc{name: name, cfg: cfg, hosts: host.NewSet(hosts...)}, release: release}
		created = append(created, p)
		return p, nil
	}
	nd.PanicLabel("controller-stop")
	ctl.Start()
	names := []string{"s1", "s2"}
	n := nd.Concrete(nd.IntRange("services", 1, 2))
	for i := 0; i < n; i++ {
		store.VfDependency([]*service.Service{{Name: names[i]}}, nil)
		store.VfSvcConfig(names[i], vfCfg(uint32(9000+i)))
		store.VfSvcEndpoints(names[i], []*service.Endpoint{vfEndpoint(i, false)}, nil)
	}
	nd.Quiesce()
	nd.Assert(len(created) == n, "harness: one processor per service")
	removed := nd.Bool("a-service-is-removed-first")
	if removed {
		store.VfDependency(nil, []*service.Service{{Name: names[0]}})
		nd.Quiesce() // the removal is being processed: its processor's Stop has begun and takes time
		nd.Cover("removal-in-progress")
	}
	stopReturned := false
	go func() { ctl.Stop(); stopReturned = true }()
	nd.Quiesce()
	if stopReturned {
		for _, p := range created {
			nd.Assert(p.stopped, "when Controller.Stop has returned every processor has been stopped (also the one of a service removed just before)")
		}
	}
	close(release) // the processors finish stopping
	nd.Quiesce()
	nd.Assert(stopReturned, "Controller.Stop returns once the processors have stopped")
	for _, p := range created {
		nd.Assert(p.stopped, "every processor ever created is stopped in the end")
	}
	nd.Cover("controller-stopped")
}
