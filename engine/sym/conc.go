package sym

import (
	"fmt"
	"go/types"

	"golang.org/x/tools/go/ssa"
	"vf/smt"
)

// ---------- threads ----------

func (e *Engine) spawn(st *State, fnv Value, args []Value) {
	f := fnv.(Func)
	th := &Thread{ID: len(st.Threads)}
	st.Threads = append(st.Threads, th)
	if f.B != nil || f.Fn == nil {
		e.unsupported("go of builtin / nil")
	}
	th.Name = f.Fn.String()
	// run through invoke so that intrinsics/hooks apply: use a tiny trampoline
	cur := st.Cur
	st.Cur = th.ID
	name := f.Fn.String()
	if _, ok := e.intr[name]; ok {
		e.unsupported("go of intrinsic %s", name)
	}
	if h, ok := e.hooks[name]; ok {
		hf := h.(Func)
		e.pushFrame(st, th, hf.Fn, args, hf.Bind, nil)
	} else {
		e.pushFrame(st, th, f.Fn, args, f.Bind, nil)
	}
	st.Cur = cur
	e.wake(st)
}

func (e *Engine) onThreadDone(st *State, th *Thread) {
	e.wake(st)
	if e.initMode {
		return
	}
	if th.ID == 0 {
		panic(abort{"done", "harness returned"})
	}
	st.NeedSched = true
}

// wake lets blocked threads retry.
func (e *Engine) wake(st *State) { st.Epoch++ }

// block parks the current thread on its current instruction (it re-executes it when `ready`
// reports that the operation can now proceed) and switches to another thread.
func (e *Engine) block(st *State, th *Thread, why string, ready func(e *Engine, st *State) bool) {
	th.Status = TBlocked
	th.BlockEpoch = st.Epoch
	th.BlockWhy = why
	th.Ready = ready
	st.NeedSched = true
}

func (e *Engine) runnable(st *State, th *Thread) bool {
	if th.Status == TRunnable {
		return true
	}
	if th.Status != TBlocked {
		return false
	}
	if th.Ready != nil {
		return th.Ready(e, st)
	}
	return th.BlockEpoch < st.Epoch
}

func (e *Engine) recvReady(st *State, obj int, self int) bool {
	if obj == 0 {
		return false
	}
	o := e.obj(st, obj)
	return len(o.Buf) > 0 || o.Closed || e.timerReady(o)
}

func (e *Engine) sendReady(st *State, obj int, self int) bool {
	if obj == 0 {
		return false
	}
	o := e.obj(st, obj)
	if o.Closed {
		return true
	}
	if o.ChCap > 0 {
		return len(o.Buf) < o.ChCap
	}
	for _, t := range st.Threads {
		if t.Status == TBlocked && t.WaitRecv == obj && t.ID != self {
			return true
		}
	}
	return false
}

// reschedule picks the next thread to run. Called when the current one cannot continue.
func (e *Engine) reschedule(st *State, why string) {
	var cands []int
	for i, th := range st.Threads {
		if e.runnable(st, th) && !(st.YieldFrom > 0 && i == st.YieldFrom && len(st.Threads) > 1) {
			cands = append(cands, i)
		}
	}
	if len(cands) == 0 && st.YieldFrom > 0 {
		cands = append(cands, st.YieldFrom)
	}
	st.YieldFrom = 0
	if len(cands) == 0 {
		// nothing can run: either quiescent (main waiting in Quiesce) or deadlock
		main := st.Threads[0]
		quiescing := main.Status == TBlocked && main.BlockWhy == "quiesce"
		// threads waiting for a timer that has not fired yet: time may pass now
		var tw []int
		if st.TimerFired < MaxTimerFires {
			for i, th := range st.Threads {
				if th.Status == TBlocked && th.TimerWait {
					tw = append(tw, i)
				}
			}
		}
		if len(tw) > 0 {
			n := len(tw)
			if quiescing {
				n++ // ... or the harness goes on first
			}
			if d := e.chooseFree(st, n, "time passes"); d < len(tw) {
				k := tw[d]
				st.Threads[k].TimerKick = true
				st.Threads[k].Status = TRunnable
				st.Cur = k
				st.schedHist = append(st.schedHist, k)
				return
			}
		}
		if quiescing {
			main.Status = TRunnable
			main.Quiesced = true
			st.Cur = 0
			return
		}
		e.deadlock(st, why)
		return
	}
	pick := cands[0]
	if e.Opt.Preempt >= 0 && len(cands) > 1 {
		// the choice of who runs after a block is free (not a pre-emption)
		g := make([]*smt.Term, len(cands))
		for i := range g {
			g[i] = e.C.True
		}
		pick = cands[e.chooseFree(st, len(cands), "schedule after block")]
	}
	st.Cur = pick
	st.Threads[pick].Status = TRunnable
	st.schedHist = append(st.schedHist, pick)
}

// chooseFree forks over n alternatives that are all feasible (no solver involvement).
func (e *Engine) chooseFree(st *State, n int, what string) int {
	if len(st.replay) > 0 {
		d := st.replay[0]
		st.replay = st.replay[1:]
		st.decided = append(st.decided, d)
		return d.d
	}
	for k := n - 1; k >= 1; k-- {
		child := st.fork()
		child.Steps-- // the child executes the current instruction again
		child.replay = append(append([]dec(nil), st.decided...), dec{k, 0})
		child.decided = nil
		e.work = append(e.work, child)
	}
	st.decided = append(st.decided, dec{0, 0})
	return 0
}

func (e *Engine) deadlock(st *State, why string) {
	var who []string
	for _, th := range st.Threads {
		if th.Status == TBlocked {
			pos := "?"
			if len(th.Frames) > 0 {
				fr := th.top()
				pos = fr.Fn.String()
				if fr.Idx < len(fr.Block.Instrs) {
					for j := fr.Idx; j >= 0; j-- {
						if q := fr.Block.Instrs[j].Pos(); q.IsValid() {
							pos += " " + e.pos(q)
							break
						}
					}
				}
			}
			who = append(who, fmt.Sprintf("thread %d (%s) blocked on %s at %s", th.ID, th.Name, th.BlockWhy, pos))
		}
	}
	var m map[string]uint64
	if st.Model != nil {
		m = st.Model
	} else {
		_, m = e.check(st, e.C.True, true)
	}
	f := &Finding{Kind: "deadlock", Label: "deadlock", Msg: fmt.Sprintf("all threads blocked: %v", who), Pos: e.instrPos(st),
		Model: m, Vars: append([]NDVar(nil), st.Vars...), Trace: append([]string(nil), st.Trace...), Sched: append([]int(nil), st.schedHist...), Stack: who}
	e.classify(st, f)
	e.res.Findings = append(e.res.Findings, f)
	panic(abort{"done", "deadlock"})
}

// schedPoint is called before a visible operation. It may pre-empt the current thread (when
// schedule exploration is on). Returns true if the current thread was switched away from: the
// caller must then return without executing the operation.
func (e *Engine) schedPoint(st *State, th *Thread) bool {
	if e.Opt.Preempt < 0 || e.initMode {
		return false
	}
	if st.NoSched {
		// Consumed by the first visible operation after a switch. A fork taken later in the same
		// instruction (several ready select cases, a timer) executes this call again: it must
		// come out the same way, so the step at which the flag was consumed is remembered.
		st.NoSched = false
		st.noSchedStep = st.Steps
		return false
	}
	if st.noSchedStep == st.Steps {
		return false
	}
	if st.Preempts >= e.Opt.Preempt {
		return false
	}
	var cands []int
	for i, t := range st.Threads {
		if i != st.Cur && e.runnable(st, t) {
			cands = append(cands, i)
		}
	}
	if len(cands) == 0 {
		return false
	}
	d := e.chooseFree(st, len(cands)+1, "pre-emption")
	if d == 0 {
		return false
	}
	st.Preempts++
	st.Cur = cands[d-1]
	st.Threads[st.Cur].Status = TRunnable
	st.NoSched = true
	st.schedHist = append(st.schedHist, st.Cur)
	return true
}

// ---------- channels ----------

func (e *Engine) chanClose(st *State, ch ChanV) {
	if ch.Obj == 0 {
		e.oblige(st, e.C.False, "panic", "close-nil-chan", "close of nil channel")
		return
	}
	o := e.wobj(st, ch.Obj)
	if o.Closed {
		e.goPanic(st, st.thread(), Iface{}, "close of closed channel")
		return
	}
	o.Closed = true
	e.wake(st)
}

// trySend returns true if the value was sent.
func (e *Engine) trySend(st *State, ch ChanV, v Value) (sent bool, panicked bool) {
	if ch.Obj == 0 {
		return false, false
	}
	o := e.obj(st, ch.Obj)
	if o.Closed {
		e.goPanic(st, st.thread(), Iface{}, "send on closed channel")
		return false, true
	}
	if o.ChCap == 0 {
		// rendezvous: needs a receiver parked on this channel
		for _, t := range st.Threads {
			if t.Status == TBlocked && t.WaitRecv == ch.Obj && t.ID != st.Cur {
				w := e.wobj(st, ch.Obj)
				w.Buf = append(w.Buf, v) // hand-off slot
				t.WaitRecv = 0
				e.wake(st)
				return true, false
			}
		}
		return false, false
	}
	if len(o.Buf) < o.ChCap {
		w := e.wobj(st, ch.Obj)
		w.Buf = append(w.Buf, v)
		e.wake(st)
		return true, false
	}
	return false, false
}

// tryRecv returns (value, ok, ready).
func (e *Engine) tryRecv(st *State, ch ChanV, elem types.Type) (Value, bool, bool) {
	if ch.Obj == 0 {
		return nil, false, false
	}
	o := e.obj(st, ch.Obj)
	if e.timerReady(o) {
		w := e.wobj(st, ch.Obj)
		w.Aux["timer"] = e.i64(w.Aux["timer"].(*smt.Term).Val - 1)
		st.TimerFired++
		e.curTimerFires = st.TimerFired
		return e.freshNow(st), true, true
	}
	if len(o.Buf) > 0 {
		w := e.wobj(st, ch.Obj)
		v := w.Buf[0]
		w.Buf = append([]Value(nil), w.Buf[1:]...)
		e.wake(st)
		return v, true, true
	}
	if o.Closed {
		return e.zero(elem), false, true
	}
	return nil, false, false
}

func (e *Engine) execSend(st *State, th *Thread, fr *Frame, x *ssa.Send) {
	if e.schedPoint(st, th) {
		return
	}
	ch := e.val(st, fr, x.Chan).(ChanV)
	v := e.val(st, fr, x.X)
	sent, panicked := e.trySend(st, ch, v)
	if panicked {
		return
	}
	if sent {
		next(fr)
		return
	}
	obj, self := ch.Obj, th.ID
	e.block(st, th, "chan send", func(e *Engine, st *State) bool { return e.sendReady(st, obj, self) })
}

func (e *Engine) execRecv(st *State, th *Thread, fr *Frame, x *ssa.UnOp) {
	if e.schedPoint(st, th) {
		return
	}
	ch := e.val(st, fr, x.X).(ChanV)
	elem := x.X.Type().Underlying().(*types.Chan).Elem()
	v, ok, ready := e.tryRecv(st, ch, elem)
	if ready {
		th.WaitRecv = 0
		if x.CommaOk {
			e.setReg(fr, x, Tuple{[]Value{v, e.C.Bool(ok)}})
		} else {
			e.setReg(fr, x, v)
		}
		next(fr)
		return
	}
	if ch.Obj != 0 && e.obj(st, ch.Obj).ChCap == 0 {
		th.WaitRecv = ch.Obj
	}
	obj, self := ch.Obj, th.ID
	e.block(st, th, "chan receive", func(e *Engine, st *State) bool { return e.recvReady(st, obj, self) })
}

func (e *Engine) execSelect(st *State, th *Thread, fr *Frame, x *ssa.Select) {
	if e.schedPoint(st, th) {
		return
	}
	// collect ready cases
	var ready []int
	for i, s := range x.States {
		ch := e.val(st, fr, s.Chan).(ChanV)
		if ch.Obj == 0 {
			continue
		}
		o := e.obj(st, ch.Obj)
		if s.Dir == types.SendOnly {
			if o.Closed || (o.ChCap > 0 && len(o.Buf) < o.ChCap) {
				ready = append(ready, i)
			} else if o.ChCap == 0 {
				for _, t := range st.Threads {
					if t.Status == TBlocked && t.WaitRecv == ch.Obj && t.ID != st.Cur {
						ready = append(ready, i)
						break
					}
				}
			}
		} else {
			if len(o.Buf) > 0 || o.Closed || e.timerReady(o) {
				ready = append(ready, i)
			}
		}
	}
	th.TimerWait = false
	if st.LazyTimers && x.Blocking && len(ready) > 0 {
		onlyTimers := true
		for _, i := range ready {
			o := e.obj(st, e.val(st, fr, x.States[i].Chan).(ChanV).Obj)
			if !(x.States[i].Dir == types.RecvOnly && len(o.Buf) == 0 && !o.Closed && e.timerReady(o)) {
				onlyTimers = false
			}
		}
		if onlyTimers {
			// The timer may fire now, or later than everything that is currently enabled: the
			// thread then waits for another case or for time to pass (reschedule kicks it when
			// nothing else can run). A kick is consumed at this step (remembered for forks that
			// execute the instruction again).
			if th.TimerKick || th.kickStep == st.Steps {
				th.TimerKick = false
				th.kickStep = st.Steps
			} else if e.chooseFree(st, 2, "timer: fires now or later") == 1 {
				type wc struct {
					obj  int
					send bool
				}
				var ws []wc
				for _, s := range x.States {
					ch := e.val(st, fr, s.Chan).(ChanV)
					if ch.Obj == 0 {
						continue
					}
					ws = append(ws, wc{ch.Obj, s.Dir == types.SendOnly})
				}
				self := th.ID
				th.TimerWait = true
				e.block(st, th, "select (timer pending)", func(e *Engine, st *State) bool {
					if st.Threads[self].TimerKick {
						return true
					}
					for _, w := range ws {
						if w.send && e.sendReady(st, w.obj, self) {
							return true
						}
						if !w.send {
							o := e.obj(st, w.obj)
							if len(o.Buf) > 0 || o.Closed {
								return true
							}
						}
					}
					return false
				})
				return
			}
		}
	}
	nrecv := 0
	for _, s := range x.States {
		if s.Dir == types.RecvOnly {
			nrecv++
		}
	}
	mkResult := func(idx int, recvOk bool, recvVals map[int]Value) Tuple {
		vs := []Value{e.i64(uint64(int64(idx))), e.C.Bool(recvOk)}
		for i, s := range x.States {
			if s.Dir == types.RecvOnly {
				if v, ok := recvVals[i]; ok {
					vs = append(vs, v)
				} else {
					vs = append(vs, e.zero(s.Chan.Type().Underlying().(*types.Chan).Elem()))
				}
			}
		}
		return Tuple{vs}
	}
	if len(ready) == 0 {
		if !x.Blocking {
			e.setReg(fr, x, mkResult(-1, false, nil))
			next(fr)
			return
		}
		type wc struct {
			obj  int
			send bool
		}
		var ws []wc
		for _, s := range x.States {
			ch := e.val(st, fr, s.Chan).(ChanV)
			ws = append(ws, wc{ch.Obj, s.Dir == types.SendOnly})
		}
		self := th.ID
		e.block(st, th, "select", func(e *Engine, st *State) bool {
			for _, w := range ws {
				if w.send && e.sendReady(st, w.obj, self) || !w.send && e.recvReady(st, w.obj, self) {
					return true
				}
			}
			return false
		})
		return
	}
	// Go picks uniformly among ready cases: every ready case is a possible behaviour
	pick := ready[0]
	if len(ready) > 1 {
		pick = ready[e.chooseFree(st, len(ready), "select: several cases ready")]
	}
	s := x.States[pick]
	ch := e.val(st, fr, s.Chan).(ChanV)
	if s.Dir == types.SendOnly {
		_, panicked := e.trySend(st, ch, e.val(st, fr, s.Send))
		if panicked {
			return
		}
		e.setReg(fr, x, mkResult(pick, false, nil))
	} else {
		v, ok, _ := e.tryRecv(st, ch, s.Chan.Type().Underlying().(*types.Chan).Elem())
		e.setReg(fr, x, mkResult(pick, ok, map[int]Value{pick: v}))
	}
	next(fr)
}
