//vf:pkg proc/redis
package redis

import (
	"time"

	"github.com/samaritan-proxy/samaritan/host"
	"github.com/samaritan-proxy/samaritan/pb/config/service"
	"github.com/samaritan-proxy/samaritan/proc"
	"github.com/samaritan-proxy/samaritan/proc/internal/log"
	"github.com/samaritan-proxy/samaritan/stats"
)

// Shared helpers for the proc/redis harnesses. The unit is driven directly: an upstream is built
// as a struct value and its backend connections are *fake clients* — real `client` structs whose
// queues exist but whose read/write loops are not started — so that what the real routing code
// hands to `(*client).Send` can be taken from `pendingReqs` and answered by the harness. This works
// identically under the executor and natively (replay).

func vfDone(ch chan struct{}) bool {
	select {
	case <-ch:
		return true
	default:
		return false
	}
}

func vfConfig() *config {
	d := 100 * time.Millisecond
	return newConfig(&service.Config{ConnectTimeout: &d})
}

func vfFakeClient() *client {
	return &client{
		pendingReqs:    make(chan *simpleRequest, 16),
		processingReqs: make(chan *simpleRequest, 16),
		quit:           make(chan struct{}),
		done:           make(chan struct{}),
	}
}

func vfNewUpstream(cfg *config, addrs ...string) (*upstream, map[string]*client) {
	var hosts []*host.Host
	for _, a := range addrs {
		hosts = append(hosts, host.New(a))
	}
	scope := stats.CreateScope("vf.")
	if cfg == nil {
		cfg = vfConfig()
	}
	u := newUpstream(cfg, hosts, log.New("vf"), proc.NewUpstreamStats(scope))
	clients := map[string]*client{}
	for _, a := range addrs {
		clients[a] = vfFakeClient()
	}
	u.clients.Store(clients)
	return u, clients
}

// vfTake returns the next request handed to the fake client of addr, or nil.
func vfTake(c *client) *simpleRequest {
	select {
	case r := <-c.pendingReqs:
		return r
	default:
		return nil
	}
}

func vfBytesEq(a, b []byte) bool {
	if len(a) != len(b) {
		return false
	}
	for i := range a {
		if a[i] != b[i] {
			return false
		}
	}
	return true
}

// vfNewProc builds a redisProc around an upstream with fake clients (no listener, no goroutines).
func vfNewProc(cfg *config, addrs ...string) (*redisProc, map[string]*client) {
	if cfg == nil {
		cfg = vfConfig()
	}
	scope := stats.CreateScope("vf.")
	p := &redisProc{
		name:     "vf",
		cfg:      cfg,
		stats:    proc.NewStats(scope),
		logger:   log.New("vf"),
		cmdHdlrs: make(map[string]*commandHandler),
	}
	var hosts []*host.Host
	for _, a := range addrs {
		hosts = append(hosts, host.New(a))
	}
	p.u = newUpstream(p.cfg, hosts, p.logger, p.stats.Upstream)
	clients := map[string]*client{}
	for _, a := range addrs {
		clients[a] = vfFakeClient()
	}
	p.u.clients.Store(clients)
	p.initCommandHandlers()
	return p, clients
}

// vfForwarded counts the requests handed to backends.
func vfForwarded(clients map[string]*client) int {
	n := 0
	for _, c := range clients {
		n += len(c.pendingReqs)
	}
	return n
}

var vfLowerTab [256]byte

func init() {
	for i := range vfLowerTab {
		c := byte(i)
		if c >= 'A' && c <= 'Z' {
			c += 32
		}
		vfLowerTab[i] = c
	}
}

// vfLowerASCII lower-cases ASCII letters through a table (no branch on the byte value, so the
// executor does not fork per byte).
func vfLowerASCII(b []byte) []byte {
	out := make([]byte, len(b))
	for i := 0; i < len(b); i++ {
		out[i] = vfLowerTab[b[i]]
	}
	return out
}

func vfHasPrefix(b []byte, p string) bool {
	if len(b) < len(p) {
		return false
	}
	for i := 0; i < len(p); i++ {
		if b[i] != p[i] {
			return false
		}
	}
	return true
}

func vfSlotOfKey(key string) int { return int(crc16(hashtag([]byte(key)))) & (slotNum - 1) }
