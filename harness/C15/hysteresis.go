//vf:pkg proc/internal/hc
package hc

import (
	"errors"
	"time"

	hostpkg "github.com/samaritan-proxy/samaritan/host"
	hcpb "github.com/samaritan-proxy/samaritan/pb/config/hc"
	"github.com/samaritan-proxy/samaritan/proc/internal/log"

	nd "github.com/samaritan-proxy/samaritan/vfnd"
)

type vfChecker struct{ next bool }

func (c *vfChecker) Check(addr string, timeout time.Duration) error {
	if c.next {
		return nil
	}
	return errors.New("down")
}

// VfC15_Hysteresis: a host's health flips only after at least `threshold` consecutive contrary
// check results; any opposite result restarts the count; it flips back the same way; and the
// usable set follows the flag.
func VfC15_Hysteresis() {
	n := nd.Param("results", 7)
	rise := uint32(nd.Concrete(nd.IntRange("rise", 1, 3)))
	fall := uint32(nd.Concrete(nd.IntRange("fall", 1, 3)))
	h := hostpkg.New("10.0.0.1:80")
	set := hostpkg.NewSet(h)
	ck := &vfChecker{}
	m := &Monitor{logger: log.New("vf"), config: &hcpb.HealthCheck{RiseThreshold: rise, FallThreshold: fall}, checker: ck, hostSet: set}
	run := 0 // length of the current run of results contrary to the current state
	nd.PanicLabel("monitor")
	for i := 0; i < n; i++ {
		ok := nd.Bool("result")
		was := h.IsHealthy()
		ck.next = ok
		m.checkHostAndUpdateStatus(h)
		now := h.IsHealthy()
		if ok == was {
			run = 0
		} else {
			run++
		}
		if now != was {
			nd.Cover("flipped")
			thr := fall
			if now {
				thr = rise
			}
			nd.Assert(ok == now, "the flip goes in the direction of the last result")
			nd.Assert(run >= int(thr), "health flips only after at least the configured number of consecutive contrary results")
			run = 0
		}
		usable := len(set.Healthy()) == 1
		nd.Assert(usable == now, "the usable set follows the health flag")
	}
}
