#!/bin/bash
# usage: confirm_seed.sh <seed_out_dir e.g. /tmp/seed_out/C12/m1> <dest id e.g. C12-m1>
# Confirms in a scratch worktree: patch applies, builds, baseline suite passes with it, demo fails
# with it and passes without it. On success copies into /verif/seeded/<id>/.
src=$1; id=$2
export GOFLAGS=-mod=mod GOPROXY=off GOSUMDB=off GOTOOLCHAIN=local
wt=/tmp/confirm_wt/$id
mkdir -p /tmp/confirm_wt; rm -rf "$wt"
git -C /repo worktree add --detach "$wt" HEAD >/dev/null 2>&1 || { echo "$id: worktree failed"; exit 1; }
cleanup() { git -C /repo worktree remove --force "$wt" >/dev/null 2>&1; }
trap cleanup EXIT
cd "$wt"
demo_path=$(cat "$src/demo_path.txt" | head -1 | tr -d '\r\n ')
demo_cmd=$(cat "$src/demo_cmd.txt" | head -1)
demo_file=$(ls "$src"/*.go 2>/dev/null | head -1)
log=/tmp/confirm_wt/$id.log; : > "$log"
# 1. demo passes without patch
cp "$demo_file" "$demo_path"
if ! (timeout 300 bash -c "$demo_cmd") >>"$log" 2>&1; then echo "$id: FAIL demo does not pass on pristine"; exit 1; fi
rm -f "$demo_path"
# 2. patch applies and builds
git apply "$src/patch.diff" >>"$log" 2>&1 || { echo "$id: FAIL patch does not apply"; exit 1; }
go build ./... >>"$log" 2>&1 || { echo "$id: FAIL build"; exit 1; }
# 3. baseline suite passes with patch (ignoring the integration package that needs redis-server and hc's network test)
go test -vet=off -count=1 -timeout 25m ./... > "$log.suite" 2>&1
bad=$(grep -E '^(FAIL|---\s*FAIL|panic:)' "$log.suite" | grep -v 'test/integration' | grep -v 'TestCheckHostsAllUnreachable' | grep -v 'proc/internal/hc\s' )
if [ -n "$bad" ]; then
  # retry once the failing packages (timing-sensitive tests)
  pk=$(grep -E '^FAIL\s' "$log.suite" | awk '{print $2}' | grep -v test/integration | grep -v 'proc/internal/hc$' | sort -u)
  ok=1
  for p in $pk; do go test -vet=off -count=1 "$p" >>"$log" 2>&1 || ok=0; done
  if [ $ok = 0 ]; then echo "$id: FAIL suite fails with patch: $(echo $bad | head -c 300)"; exit 1; fi
fi
# 4. demo fails with patch
cp "$demo_file" "$demo_path"
if (timeout 300 bash -c "$demo_cmd") >>"$log" 2>&1; then echo "$id: FAIL demo passes with patch"; exit 1; fi
rm -f "$demo_path"
dest=/verif/seeded/$id; mkdir -p "$dest"
cp "$src/patch.diff" "$dest/"; cp "$demo_file" "$dest/"; cp "$src/demo_path.txt" "$src/demo_cmd.txt" "$dest/"
python3 - "$src/meta.json" "$dest/meta.json" "$id" <<'PY'
import json,sys
try: m=json.load(open(sys.argv[1]))
except Exception: m={}
m['id']=sys.argv[3]
m['confirmed']={'by':'tools/confirm_seed.sh in a scratch worktree','patch_applies':True,'builds':True,'baseline_suite_passes_with_patch':True,'demo_passes_pristine':True,'demo_fails_with_patch':True}
json.dump(m,open(sys.argv[2],'w'),indent=1)
PY
echo "$id: OK"
