#!/bin/sh
# builds the vf engine offline from files on disk only, then validates the translator on concrete
# vectors (the repository's own test inputs and one vector per Go->SMT rule)
set -e
export GOFLAGS=-mod=mod GOPROXY=off GOSUMDB=off GOTOOLCHAIN=local
cd /verif/engine
mkdir -p /verif/bin
go build -o /verif/bin/vf ./cmd/vf
cd /verif
./bin/vf check SELF > /tmp/vf-selftest.log 2>&1 || { cat /tmp/vf-selftest.log; echo "vf selftest failed"; exit 1; }
rm -f /verif/evidence/SELF.json
echo "vf built, selftest ok"
