// Package sym is a forking symbolic executor for go/ssa.
package sym

import (
	"fmt"
	"go/types"

	"golang.org/x/tools/go/ssa"
	"vf/smt"
)

// Value is one of:
//   *smt.Term              integer (bit-vector) or bool
//   Ptr, Slice, Str, Struct, Arr, Tuple, Iface, Func, MapV, ChanV, Float, nil (untyped zero / invalid)
type Value interface{}

// SymIdx is a symbolic index component of a pointer: cell offset += Idx*Stride, 0 <= Idx < N.
type SymIdx struct {
	Idx    *smt.Term // 64-bit
	Stride int
	N      int
}

// Ptr points at cell Off (+ symbolic components) of object Obj. Obj == 0 is nil.
type Ptr struct {
	Obj int
	Off int
	Sym []SymIdx
}

// Slice views N = ArrLen elements of Stride cells each, starting at cell Base of Obj.
// Off/Len/Cap are in elements (64-bit terms), Off relative to Base.
type Slice struct {
	Obj    int
	Base   int
	Stride int
	ArrLen int
	Off    *smt.Term
	Len    *smt.Term
	Cap    *smt.Term
}

// Str is a Go string: either a constant or a byte view (Sl with Stride 1; Cap unused).
type Str struct {
	IsConst bool
	S       string
	Sl      Slice
}

type Struct struct{ F []Value }
type Arr struct{ E []Value }
type Tuple struct{ V []Value }

// Iface: T == nil is the nil interface.
type Iface struct {
	T types.Type
	V Value
}

// Func: Fn == nil && B == nil is nil func.
type Func struct {
	Fn   *ssa.Function
	B    *ssa.Builtin
	Bind []Value
}

type MapV struct{ Obj int }
type ChanV struct{ Obj int }
type Float struct{ F float64 }

// ---------- type layout ----------

type layout struct {
	size   int
	fields []int // struct field cell offsets
}

type Layouts struct {
	m map[types.Type]*layout
}

func newLayouts() *Layouts { return &Layouts{m: map[types.Type]*layout{}} }

func (l *Layouts) of(t types.Type) *layout {
	if lo, ok := l.m[t]; ok {
		return lo
	}
	var lo *layout
	switch u := t.Underlying().(type) {
	case *types.Struct:
		lo = &layout{}
		off := 0
		for i := 0; i < u.NumFields(); i++ {
			lo.fields = append(lo.fields, off)
			off += l.of(u.Field(i).Type()).size
		}
		lo.size = off
	case *types.Array:
		lo = &layout{size: int(u.Len()) * l.of(u.Elem()).size}
	default:
		lo = &layout{size: 1}
	}
	l.m[t] = lo
	return lo
}

func (l *Layouts) size(t types.Type) int { return l.of(t).size }

func (l *Layouts) fieldOff(t types.Type, i int) int {
	return l.of(t).fields[i]
}

// intWidth returns bit-width and signedness of an integer-like basic type.
func intWidth(t types.Type) (w int, signed bool, ok bool) {
	b, isb := t.Underlying().(*types.Basic)
	if !isb {
		return 0, false, false
	}
	switch b.Kind() {
	case types.Int8:
		return 8, true, true
	case types.Int16:
		return 16, true, true
	case types.Int32, types.UntypedRune:
		return 32, true, true
	case types.Int64, types.Int, types.UntypedInt:
		return 64, true, true
	case types.Uint8:
		return 8, false, true
	case types.Uint16:
		return 16, false, true
	case types.Uint32:
		return 32, false, true
	case types.Uint64, types.Uint, types.Uintptr:
		return 64, false, true
	}
	return 0, false, false
}

func isBool(t types.Type) bool {
	b, ok := t.Underlying().(*types.Basic)
	return ok && b.Info()&types.IsBoolean != 0
}
func isString(t types.Type) bool {
	b, ok := t.Underlying().(*types.Basic)
	return ok && b.Info()&types.IsString != 0
}
func isFloat(t types.Type) bool {
	b, ok := t.Underlying().(*types.Basic)
	return ok && b.Info()&(types.IsFloat|types.IsComplex) != 0
}

func (e *Engine) zero(t types.Type) Value {
	switch u := t.Underlying().(type) {
	case *types.Basic:
		if w, _, ok := intWidth(u); ok {
			return e.C.BV(0, w)
		}
		if isBool(u) {
			return e.C.False
		}
		if isString(u) {
			return Str{IsConst: true}
		}
		if isFloat(u) {
			return Float{0}
		}
		if u.Kind() == types.UnsafePointer {
			return Ptr{}
		}
		if u.Kind() == types.UntypedNil {
			return nil
		}
		panic(fmt.Sprintf("zero: basic %v", u))
	case *types.Pointer:
		return Ptr{}
	case *types.Slice:
		z := e.C.BV(0, 64)
		return Slice{Off: z, Len: z, Cap: z, Stride: e.L.size(u.Elem())}
	case *types.Map:
		return MapV{}
	case *types.Chan:
		return ChanV{}
	case *types.Signature:
		return Func{}
	case *types.Interface:
		return Iface{}
	case *types.Struct:
		f := make([]Value, u.NumFields())
		for i := range f {
			f[i] = e.zero(u.Field(i).Type())
		}
		return Struct{f}
	case *types.Array:
		el := make([]Value, u.Len())
		for i := range el {
			el[i] = e.zero(u.Elem())
		}
		return Arr{el}
	case *types.Tuple:
		v := make([]Value, u.Len())
		for i := range v {
			v[i] = e.zero(u.At(i).Type())
		}
		return Tuple{v}
	}
	panic(fmt.Sprintf("zero: %T %v", t, t))
}

// flatten writes v (of type t) into cells.
func (e *Engine) flatten(t types.Type, v Value, cells []Value) {
	switch u := t.Underlying().(type) {
	case *types.Struct:
		sv := v.(Struct)
		off := 0
		for i := 0; i < u.NumFields(); i++ {
			ft := u.Field(i).Type()
			n := e.L.size(ft)
			e.flatten(ft, sv.F[i], cells[off:off+n])
			off += n
		}
	case *types.Array:
		av := v.(Arr)
		n := e.L.size(u.Elem())
		for i := range av.E {
			e.flatten(u.Elem(), av.E[i], cells[i*n:(i+1)*n])
		}
	default:
		cells[0] = v
	}
}

// unflatten reads a value of type t from cells.
func (e *Engine) unflatten(t types.Type, cells []Value) Value {
	switch u := t.Underlying().(type) {
	case *types.Struct:
		f := make([]Value, u.NumFields())
		off := 0
		for i := range f {
			ft := u.Field(i).Type()
			n := e.L.size(ft)
			f[i] = e.unflatten(ft, cells[off:off+n])
			off += n
		}
		return Struct{f}
	case *types.Array:
		n := e.L.size(u.Elem())
		el := make([]Value, u.Len())
		for i := range el {
			el[i] = e.unflatten(u.Elem(), cells[i*n:(i+1)*n])
		}
		return Arr{el}
	default:
		return cells[0]
	}
}

func (e *Engine) zeroCells(t types.Type) []Value {
	n := e.L.size(t)
	cells := make([]Value, n)
	// fast path for arrays of scalars
	if a, ok := t.Underlying().(*types.Array); ok && e.L.size(a.Elem()) == 1 {
		z := e.zero(a.Elem())
		for i := range cells {
			cells[i] = z
		}
		return cells
	}
	if n > 0 {
		e.flatten(t, e.zero(t), cells)
	}
	return cells
}
