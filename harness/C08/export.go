//vf:pkg config
package config

import (
	"github.com/samaritan-proxy/samaritan/pb/config/bootstrap"
	"github.com/samaritan-proxy/samaritan/pb/config/service"
)

// Thin white-box wrappers for the C08 harness (which lives in package controller): the three
// unexported update handlers of the store and a read accessor for its service table.

func VfNewStore() *Config {
	return &Config{Bootstrap: &bootstrap.Bootstrap{}, sws: make(map[string]*serviceWrapper), evtCh: make(chan Event, 32)}
}

func (c *Config) VfDependency(added, removed []*service.Service) { c.handleDependencyUpdate(added, removed) }
func (c *Config) VfSvcConfig(name string, cfg *service.Config)   { c.handleSvcConfigUpdate(name, cfg) }
func (c *Config) VfSvcEndpoints(name string, added, removed []*service.Endpoint) {
	c.handleSvcEndpointUpdate(name, added, removed)
}

// VfView returns the store's current knowledge about a service.
func (c *Config) VfView(name string) (known bool, cfg *service.Config, eps []*service.Endpoint) {
	sw, ok := c.sws[name]
	if !ok {
		return false, nil, nil
	}
	return true, sw.Config, sw.Endpoints
}

func (c *Config) VfPending() int { return len(c.evtCh) }
