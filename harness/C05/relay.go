//vf:pkg proc/tcp
package tcp

import (
	netutil "github.com/samaritan-proxy/samaritan/proc/internal/net"

	nd "github.com/samaritan-proxy/samaritan/vfnd"
)

// VfC05_OneDirection: the copy loop of one direction relays exactly the bytes read, in order,
// nothing after an error; on end of stream it half-closes the destination after the last byte and
// stops reading the source; it fully closes only when a half-close is not possible.
func VfC05_OneDirection() {
	bufSize = nd.Param("bufsize", 4) // "many buffer sizes" within the bound
	var log []string
	src := &vfConn{name: "src", failAt: -1, log: &log}
	dst := &vfConn{name: "dst", failAt: -1, log: &log}
	sent := vfScript(src, nd.Param("reads", 3), nd.Param("chunk", 6))
	if nd.Bool("write-fails") {
		dst.failAt = nd.Concrete(nd.IntRange("failat", 0, 2))
		dst.short = nd.Bool("short")
	}
	dst.noHalf = nd.Bool("no-half-close")
	p := vfNewTCPProc(0)
	nd.PanicLabel("relay")
	ws, wd := netutil.New(src), netutil.New(dst)
	ws.SetReadTimeout(*p.cfg.IdleTimeout) // as HandleConn / dial do
	wd.SetReadTimeout(*p.cfg.IdleTimeout)
	p.pipeConn(ws, wd)
	// what arrived is a prefix of what was sent, complete unless a write failed
	nd.Assert(len(dst.written) <= len(sent) && vfBytesEq(dst.written, sent[:len(dst.written)]), "the destination receives the source's bytes, unmodified and in order")
	wfailed := dst.failAt >= 0 && dst.nwrites > dst.failAt
	if !wfailed {
		nd.Assert(len(dst.written) == len(sent), "without a write failure every byte read is delivered")
		nd.Cover("all-delivered")
	} else {
		nd.Assert(dst.nwrites == dst.failAt+1, "nothing is written after a failed or short write")
	}
	cw, lastW := vfIndex(log, "CW:dst"), vfLastIndex(log, "W:dst")
	nd.Assert(vfCount(log, "CW:dst") == 1 && cw > lastW, "the destination is half-closed exactly once, after the last byte")
	nd.Assert(vfCount(log, "CR:src") == 1, "the source's read side is shut down")
	nd.Assert((vfCount(log, "C:dst") == 1) == dst.noHalf, "a full close happens only when the half-close fails")
	if src.readErr == nil && !wfailed {
		nd.Assert(vfIndex(log, "EOF:src") >= 0 && cw > vfIndex(log, "EOF:src"), "end of stream is signalled only after the source's end was seen")
	}
	// idle timeout: a read deadline is set before every read of the source
	for i, e := range log {
		if e == "R:src" || e == "EOF:src" {
			nd.Assert(i > 0 && log[i-1] == "RD:src", "the read deadline is refreshed before every read")
		}
	}
}

// VfC05_BufferReuse: two relays that share a pooled buffer (sync.Pool may return a buffer that was
// put back before) still deliver their own bytes.
func VfC05_BufferReuse() {
	nd.PoolReuse(true)
	bufSize = 4
	p := vfNewTCPProc(0)
	for round := 0; round < 2; round++ {
		var log []string
		src := &vfConn{name: "src", failAt: -1, log: &log}
		dst := &vfConn{name: "dst", failAt: -1, log: &log}
		sent := vfScript(src, 2, 5)
		p.pipeConn(netutil.New(src), netutil.New(dst))
		if src.readErr == nil {
			nd.Assert(vfBytesEq(dst.written, sent), "a relay using a recycled buffer delivers exactly its own bytes")
		}
	}
	nd.Cover("two-rounds")
	// after the relays, two users asking for a buffer at the same time never get the same one
	x, y := getBuffer(), getBuffer()
	nd.Assert(&x[0] != &y[0], "two simultaneous users never get the same pooled buffer")
}
