#!/bin/bash
# usage: confirm_all.sh C06 C10 ...   confirms out/m1,m2 of each as Cxx-r5m1/2
for p in "$@"; do for k in 1 2; do
  [ -f /tmp/seed5/$p/out/m$k/patch.diff ] && echo "$p $k"
done; done | xargs -P 4 -L 1 bash -c '/verif/tools/confirm_seed.sh /tmp/seed5/$0/out/m$1 $0-r5m$1' 
