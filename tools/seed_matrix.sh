#!/bin/bash
# runs every seeded change against the check of its property (and extra checks given in seeded/<id>/also.txt)
out=${1:-/tmp/seedmatrix}; mkdir -p $out
run_one() {
  id=$1; prop=${id%%-*}
  checks="$prop"; [ -f /verif/seeded/$id/also.txt ] && checks="$checks $(cat /verif/seeded/$id/also.txt)"
  for c in $checks; do
    [ -f /verif/checks/$c.json ] || { echo "$id $c NO-CHECK"; continue; }
    r=$(/verif/tools/try_seed.sh /verif/seeded/$id/patch.diff $c 2>&1)
    if echo "$r" | grep -q "patch does not apply"; then echo "$id $c PATCH-DOES-NOT-APPLY";
    elif echo "$r" | grep -q "^VIOLATION"; then echo "$id $c CAUGHT $(echo "$r" | grep -m1 'assertion=' | sed 's/.*assertion=//' | cut -c1-90)";
    elif echo "$r" | grep -q "exit=0"; then echo "$id $c MISSED";
    else echo "$id $c OTHER $(echo "$r" | grep -m1 INCONCL | cut -c1-160)"; fi
  done
}
export -f run_one
ls /verif/seeded | grep -E "${SEED_FILTER:-.}" | xargs -P 4 -I{} bash -c 'run_one {}' > $out/result.txt 2>&1
sort $out/result.txt
