#!/bin/sh
# builds the vf engine offline from files on disk only
set -e
export GOFLAGS=-mod=mod GOPROXY=off GOSUMDB=off GOTOOLCHAIN=local
cd /verif/engine 2>/dev/null || exit 0
mkdir -p /verif/bin
go build -o /verif/bin/vf ./cmd/vf
