//vf:pkg proc/redis
package redis

import (
	"io"
	"strconv"

	nd "github.com/samaritan-proxy/samaritan/vfnd"
)

// vfSink collects what the encoder's bufio.Writer flushes.
type vfSink struct{ b []byte }

func (s *vfSink) Write(p []byte) (int, error) {
	s.b = append(s.b, p...)
	return len(p), nil
}

// vfChunkReader delivers data in chunks whose sizes are symbolic for the first `sym` reads
// (every split position), then everything that is left.
type vfChunkReader struct {
	data []byte
	pos  int
	sym  int
	eof  bool
	fixed int // > 0: at most this many bytes per Read
	// call-stack depth (nd.Depth) seen at Read calls: the decoder reads from inside its recursion
	minDepth, maxDepth int
}

func (r *vfChunkReader) Read(p []byte) (int, error) {
	left := len(r.data) - r.pos
	if left == 0 {
		r.eof = true
		return 0, io.EOF
	}
	n := left
	if n > len(p) {
		n = len(p)
	}
	if r.fixed > 0 {
		if n > r.fixed {
			n = r.fixed
		}
		d := nd.Depth()
		if r.minDepth == 0 || d < r.minDepth {
			r.minDepth = d
		}
		if d > r.maxDepth {
			r.maxDepth = d
		}
	}
	if r.sym > 0 && n > 1 {
		r.sym--
		n = nd.Concrete(nd.IntRange("chunk", 1, n))
	}
	copy(p, r.data[r.pos:r.pos+n])
	r.pos += n
	return n, nil
}

func vfText(name string, n int, line bool) []byte {
	b := nd.Bytes(name, n)
	if line {
		for i := range b {
			nd.Assume(b[i] != CR && b[i] != LF)
		}
	}
	return b
}

var vfInts = []int64{0, -1, 9, 10, -128, -129, 32768, 32769, 999999999, 1000000000, -999999999, 9223372036854775807, -9223372036854775808}

// vfValue builds the value of the given shape with symbolic contents.
func vfValue(shape int, maxText int) *RespValue {
	tl := func() int { return nd.Concrete(nd.IntRange("tlen", 0, maxText)) }
	in := func() *RespValue { return newInteger(vfInts[nd.Concrete(nd.Choice("int", len(vfInts)))]) }
	switch shape {
	case 0:
		return newSimpleBytes(vfText("s", tl(), true))
	case 1:
		return &RespValue{Type: Error, Text: vfText("e", tl(), true)}
	case 2:
		return in()
	case 3:
		return newBulkBytes(vfText("b", tl(), false))
	case 4:
		return newNullBulkString()
	case 5:
		return &RespValue{Type: Array} // null array
	case 6:
		return newArray([]RespValue{}...)
	case 7:
		return newArray(*newBulkBytes(vfText("b", tl(), false)), *in())
	case 8:
		return newArray(*newNullBulkString(), *newBulkBytes([]byte{}))
	case 9:
		return newArray(*newArray(*newBulkBytes(vfText("b", tl(), false))), *newSimpleBytes(vfText("s", tl(), true)))
	case 10:
		return newArray(RespValue{Type: Array}, *newArray([]RespValue{}...))
	case 11:
		return newArray(*newArray(*newArray(*in())), RespValue{Type: Error, Text: vfText("e", tl(), true)})
	}
	return newInteger(0)
}

const vfShapes = 12

// vfSame: equality that also distinguishes null from empty.
func vfSame(a, b *RespValue) bool {
	if a.Type != b.Type {
		return false
	}
	switch a.Type {
	case Integer:
		return a.Int == b.Int
	case Array:
		if (a.Array == nil) != (b.Array == nil) || len(a.Array) != len(b.Array) {
			return false
		}
		for i := range a.Array {
			if !vfSame(&a.Array[i], &b.Array[i]) {
				return false
			}
		}
		return true
	case BulkString:
		if (a.Text == nil) != (b.Text == nil) {
			return false
		}
	}
	return vfBytesEq(a.Text, b.Text)
}

// VfC10_RoundTrip: encode then decode yields the same value for every chunking of the byte stream
// and a following message decodes next; exactly the message's bytes are consumed.
func VfC10_RoundTrip() {
	shape := nd.Concrete(nd.Choice("shape", vfShapes))
	v := vfValue(shape, nd.Param("maxtext", 3))
	sink := &vfSink{}
	enc := newEncoder(sink, 4096)
	nd.PanicLabel("codec")
	nd.Assert(enc.Encode(v) == nil && enc.Flush() == nil, "encode succeeds")
	first := len(sink.b)
	nd.Assert(enc.Encode(newInteger(7)) == nil && enc.Flush() == nil, "encode of the following message succeeds")
	rd := &vfChunkReader{data: sink.b, sym: nd.Param("splits", 2)}
	dec := newDecoder(rd, nd.Param("bufsize", 32))
	got, err := dec.Decode()
	nd.Assert(err == nil, "decode of encoded bytes succeeds")
	if err != nil {
		return
	}
	nd.Assert(dec.depth == 0, "the decoder carries no nesting state from one message to the next (so any number of messages in a row decode alike)")
	nd.Assert(vfSame(got, v), "decode(encode(v)) == v, null and empty kept apart")
	nd.Assert(got.Equal(v) && v.Equal(got), "decode(encode(v)) Equal v")
	consumed := rd.pos - dec.br.buffered()
	nd.Assert(consumed == first, "exactly the bytes of the message are consumed")
	got2, err := dec.Decode()
	nd.Assert(err == nil && got2.Type == Integer && got2.Int == 7, "the following message decodes next")
	_, err = dec.Decode()
	nd.Assert(err == io.EOF, "then end of stream")
	if shape >= 7 {
		nd.Cover("nested")
	}
}

// VfC10_Canonical: canonical bytes accepted by the decoder re-encode to the same bytes.
func VfC10_Canonical() {
	n := nd.Param("bytes", 8)
	l := nd.Concrete(nd.IntRange("len", 1, n))
	data := nd.Bytes("d", l)
	rd := &vfChunkReader{data: data}
	dec := newDecoder(rd, 32)
	nd.PanicLabel("codec")
	v, err := dec.Decode()
	if err == nil {
		nd.Assert(dec.depth == 0, "the decoder carries no nesting state from one message to the next (so any number of messages in a row decode alike)")
	}
	if err != nil || rd.pos-dec.br.buffered() != l {
		return
	}
	// canonical form: typed first byte, decimal numbers as the encoder prints them
	if !vfCanonical(v, data) {
		return
	}
	nd.Cover("canonical-accepted")
	sink := &vfSink{}
	enc := newEncoder(sink, 4096)
	nd.Assert(enc.Encode(v) == nil && enc.Flush() == nil, "re-encode succeeds")
	nd.Assert(vfBytesEq(sink.b, data), "encode(decode(b)) == b for canonical b")
}

// vfCanonical: the message is not an inline command and every number in it is printed canonically
// (no '+', no leading zeros, no "-0"). Numbers are re-derived with strconv on the decoded value.
func vfCanonical(v *RespValue, data []byte) bool {
	switch RespType(data[0]) {
	case Integer, SimpleString, Error, BulkString, Array:
	default:
		return false
	}
	return vfCanonNums(data)
}

func vfCanonNums(data []byte) bool {
	// every header line ":", "$", "*" must hold a canonical decimal
	i := 0
	for i < len(data) {
		t := RespType(data[i])
		j := i + 1
		for j < len(data) && data[j] != LF {
			j++
		}
		if j >= len(data) {
			return false
		}
		line := data[i+1 : j-1]
		switch t {
		case Integer, BulkString, Array:
			if !vfCanonDec(line) {
				return false
			}
			if t == BulkString {
				n, _ := strconv.Atoi(string(line))
				if n >= 0 {
					j += n + 2
				}
			}
		case SimpleString, Error:
		default:
			return false
		}
		i = j + 1
	}
	return true
}

func vfCanonDec(b []byte) bool {
	if len(b) == 0 {
		return false
	}
	i := 0
	if b[0] == '-' {
		i = 1
		if len(b) == 1 || b[1] == '0' {
			return false
		}
	}
	if b[i] == '0' && len(b) > i+1 {
		return false
	}
	for ; i < len(b); i++ {
		if b[i] < '0' || b[i] > '9' {
			return false
		}
	}
	return true
}

// VfC10_Btoi: btoi64 agrees with strconv.ParseInt on every input of the fast path's domain
// (length 1..9) and on the fall-back lengths.
func VfC10_Btoi() {
	max := nd.Param("maxlen", 9)
	l := nd.Concrete(nd.IntRange("len", 0, max))
	b := nd.Bytes("d", l)
	nd.PanicLabel("btoi64")
	got, gerr := btoi64(b)
	want, werr := strconv.ParseInt(string(b), 10, 64)
	nd.Assert((gerr == nil) == (werr == nil), "btoi64 accepts exactly what strconv.ParseInt accepts")
	if gerr == nil && werr == nil {
		nd.Cover("accepted")
		nd.Assert(got == want, "btoi64 value equals strconv.ParseInt value")
	}
}

// VfC10_Itoa: itoa agrees with strconv.FormatInt on the table range and its neighbours. The table
// is a constant built by the package initialiser, so the range is split into concrete values by
// the executor (exhaustive over [lo,hi]).
func VfC10_Itoa() {
	lo, hi := nd.Param("lo", -130), nd.Param("hi", 130)
	i := int64(nd.Concrete(nd.IntRange("i", lo, hi)))
	nd.PanicLabel("itoa")
	nd.Assert(itoa(i) == strconv.FormatInt(i, 10), "itoa(i) == strconv.FormatInt(i)")
}

// VfC10_Limits: declared lengths outside the protocol's limits are rejected before any
// allocation or read sized by them; -1 is the null value; the error is sticky.
func VfC10_Limits() {
	isArray := nd.Bool("array")
	digits := nd.Concrete(nd.IntRange("digits", 1, nd.Param("digits", 11)))
	num := nd.Bytes("n", digits)
	for i := range num {
		nd.Assume(num[i] != LF) // the header line ends at the first LF
	}
	var data []byte
	if isArray {
		data = append(data, '*')
	} else {
		data = append(data, '$')
	}
	data = append(data, num...)
	data = append(data, CR, LF)
	rd := &vfChunkReader{data: data}
	dec := newDecoder(rd, 32)
	nd.PanicLabel("declared-length")
	want, werr := strconv.ParseInt(string(num), 10, 64)
	v, err := dec.Decode()
	if werr != nil {
		nd.Assert(err != nil, "a non-numeric length is rejected")
		return
	}
	limit := int64(maxBulkStringLen)
	if isArray {
		limit = maxArrayLen
	}
	switch {
	case want < -1 || want > limit:
		nd.Cover("out-of-limits")
		nd.Assert(err != nil && err != io.EOF && err != io.ErrUnexpectedEOF, "a length outside the declared limits is rejected before reading the body")
		_, err2 := dec.Decode()
		nd.Assert(err2 == err, "the decoder's error is sticky")
	case want == -1:
		nd.Cover("null")
		nd.Assert(err == nil && v.Text == nil && v.Array == nil, "-1 is the null value")
	case want == 0 && isArray:
		nd.Assert(err == nil && v.Array != nil && len(v.Array) == 0, "*0 is the empty array")
	default:
		nd.Assert(err != nil, "a body that never arrives is an error, not a value")
	}
}

// VfC10_Inline: an inline command decodes to the same request as its array form.
func VfC10_Inline() {
	words := nd.Concrete(nd.IntRange("words", 1, nd.Param("words", 3)))
	var line []byte
	var arr []RespValue
	for w := 0; w < words; w++ {
		wl := nd.Concrete(nd.IntRange("wl", 1, nd.Param("wordlen", 3)))
		word := nd.Bytes("w", wl)
		for i := range word {
			nd.Assume(word[i] != CR && word[i] != LF && word[i] != ' ')
		}
		if w == 0 {
			t := RespType(word[0])
			nd.Assume(t != Integer && t != SimpleString && t != Error && t != BulkString && t != Array)
		}
		sp := nd.Concrete(nd.IntRange("spaces", 1, 2))
		if w > 0 {
			for s := 0; s < sp; s++ {
				line = append(line, ' ')
			}
		}
		line = append(line, word...)
		arr = append(arr, *newBulkBytes(word))
	}
	line = append(line, CR, LF)
	sink := &vfSink{}
	enc := newEncoder(sink, 4096)
	enc.Encode(newArray(arr...))
	enc.Flush()
	nd.PanicLabel("inline")
	// a second, different inline command is pipelined behind the first: the first request is still
	// held (queued for a backend, possibly re-sent after a redirection) while the reader goes on
	next := []byte("QQQQQQQQ\r\n")
	stream := append(append([]byte{}, line...), next...)
	d1 := newDecoder(&vfChunkReader{data: stream, sym: 1}, 32)
	d2 := newDecoder(&vfChunkReader{data: sink.b}, 32)
	v1, err1 := d1.Decode()
	v2, err2 := d2.Decode()
	nd.Assert(err1 == nil && err2 == nil, "both forms decode")
	if err1 == nil && err2 == nil {
		nd.Assert(vfSame(v1, v2), "inline form decodes to the same request as the array form")
		n1, errn := d1.Decode()
		nd.Assert(errn == nil && n1 != nil && len(n1.Array) == 1, "the pipelined inline command decodes next")
		nd.Assert(vfSame(v1, v2), "an inline request keeps its bytes while the following bytes are read")
		nd.Cover("held-across-next-read")
	}
}

// VfC10_LongLine: lines longer than the reader's buffer are returned intact; slices handed out by
// the slab allocator never overlap.
func VfC10_LongLine() {
	bufsize := nd.Param("bufsize", 32)
	ll := nd.Concrete(nd.IntRange("linelen", 0, nd.Param("maxline", 70)))
	text := vfText("t", ll, true)
	data := append([]byte{'+'}, text...)
	data = append(data, CR, LF)
	data = append(data, '+', 'x', CR, LF)
	rd := &vfChunkReader{data: data, sym: nd.Param("splits", 1)}
	dec := newDecoder(rd, bufsize)
	nd.PanicLabel("long-line")
	v, err := dec.Decode()
	nd.Assert(err == nil && v.Type == SimpleString && vfBytesEq(v.Text, text), "a line longer than the buffer is returned intact")
	v2, err := dec.Decode()
	nd.Assert(err == nil && vfBytesEq(v2.Text, []byte("x")), "the next message follows")
	nd.Assert(vfBytesEq(v.Text, text), "the first line is not clobbered by reading the next")
	if ll > bufsize {
		nd.Cover("longer-than-buffer")
	}
}

// VfC10_Slab: sliceAlloc.Make hands out non-overlapping, capacity-capped slices.
func VfC10_Slab() {
	d := &sliceAlloc{buf: make([]byte, nd.Param("slab", 16))}
	n1 := nd.IntRange("n1", 0, 20)
	n2 := nd.IntRange("n2", 0, 20)
	nd.PanicLabel("slab")
	a := d.Make(n1)
	b := d.Make(n2)
	nd.Assert(len(a) == n1 && len(b) == n2, "Make(n) returns n bytes")
	if n1 > 0 && n2 > 0 {
		nd.Assert(cap(a) == n1 || n1 >= 512, "slab slices are capacity-capped")
		a[0], a[n1-1] = 1, 1
		b[0], b[n2-1] = 2, 2
		nd.Assert(a[0] == 1 && a[n1-1] == 1, "slices handed out do not overlap")
		nd.Cover("both-nonempty")
	}
}

// VfC10_BtoiLong: beyond the fast path (10..20 characters, here: an optional sign and decimal
// digits only, so that the executor does not fork per character class) btoi64 still agrees with
// strconv.ParseInt, including the int64 overflow boundary at 19 digits.
func VfC10_BtoiLong() {
	l := nd.Concrete(nd.IntRange("len", 10, nd.Param("maxlen", 20)))
	b := nd.Bytes("d", l)
	for i := range b {
		if i == 0 {
			nd.Assume(b[i] == '-' || (b[i] >= '0' && b[i] <= '9'))
		} else {
			nd.Assume(b[i] >= '0' && b[i] <= '9')
		}
	}
	nd.PanicLabel("btoi64")
	got, gerr := btoi64(b)
	want, werr := strconv.ParseInt(string(b), 10, 64)
	nd.Assert((gerr == nil) == (werr == nil), "btoi64 accepts exactly what strconv.ParseInt accepts (long numbers)")
	if gerr == nil && werr == nil {
		nd.Cover("accepted")
		nd.Assert(got == want, "btoi64 value equals strconv.ParseInt value (long numbers)")
	}
}

// VfC10_BtoiBoundary: around the limits of int64 - where a fast path without an overflow check would
// wrap silently - btoi64 agrees with strconv.ParseInt: an optional sign, one of a few 18-digit
// prefixes (the first 18 digits of MaxInt64, all nines, a one followed by zeros) and one or two
// further arbitrary digits (so 19- and 20-digit numbers on both sides of the limit).
func VfC10_BtoiBoundary() {
	prefixes := []string{"922337203685477580", "999999999999999999", "100000000000000000", "184467440737095516"}
	pre := prefixes[nd.Concrete(nd.Choice("prefix", len(prefixes)))]
	var b []byte
	switch nd.Concrete(nd.Choice("sign", 3)) {
	case 1:
		b = append(b, '-')
	case 2:
		b = append(b, '+')
	}
	b = append(b, pre...)
	extra := nd.Concrete(nd.IntRange("extra-digits", 1, 2))
	tail := nd.Bytes("d", extra)
	for i := range tail {
		nd.Assume(tail[i] >= '0' && tail[i] <= '9')
	}
	b = append(b, tail...)
	nd.PanicLabel("btoi64")
	got, gerr := btoi64(b)
	want, werr := strconv.ParseInt(string(b), 10, 64)
	nd.Assert((gerr == nil) == (werr == nil), "btoi64 accepts exactly what strconv.ParseInt accepts (numbers around the int64 limits)")
	if gerr == nil && werr == nil {
		nd.Cover("accepted")
		nd.Assert(got == want, "btoi64 value equals strconv.ParseInt value (numbers around the int64 limits)")
	} else {
		nd.Cover("out-of-range")
	}
}
