//vf:pkg controller
package controller

import (
	"fmt"

	"github.com/samaritan-proxy/samaritan/config"
	"github.com/samaritan-proxy/samaritan/host"
	"github.com/samaritan-proxy/samaritan/pb/common"
	"github.com/samaritan-proxy/samaritan/pb/config/protocol"
	"github.com/samaritan-proxy/samaritan/pb/config/service"
	"github.com/samaritan-proxy/samaritan/proc"

	nd "github.com/samaritan-proxy/samaritan/vfnd"
)

// vfProc is a recording processor: it keeps the configuration and a real host.Set.
type vfProc struct {
	name    string
	cfg     *service.Config
	hosts   *host.Set
	stopped bool
}

func (p *vfProc) Name() string            { return p.name }
func (p *vfProc) Address() string         { return "" }
func (p *vfProc) Config() *service.Config { return p.cfg }
func (p *vfProc) OnSvcHostAdd(hs []*host.Host) error {
	p.hosts.Add(hs...)
	return nil
}
func (p *vfProc) OnSvcHostRemove(hs []*host.Host) error {
	p.hosts.Remove(hs...)
	return nil
}
func (p *vfProc) OnSvcAllHostReplace(hs []*host.Host) error {
	p.hosts.ReplaceAll(hs)
	return nil
}
func (p *vfProc) OnSvcConfigUpdate(c *service.Config) error {
	if err := c.Validate(); err != nil {
		return err
	}
	p.cfg = c
	return nil
}
func (p *vfProc) Start() error      { return nil }
func (p *vfProc) StopListen() error { return nil }
func (p *vfProc) Stop() error       { p.stopped = true; return nil }

func vfCfg(port uint32) *service.Config {
	return &service.Config{
		Listener: &service.Listener{Address: &common.Address{Ip: "127.0.0.1", Port: port}},
		Protocol: protocol.TCP,
	}
}

func vfEndpoint(i int, backup bool) *service.Endpoint {
	e := &service.Endpoint{Address: &common.Address{Ip: "10.0.0.1", Port: uint32(8000 + i)}}
	// the state the registry reports for the endpoint (UP, DOWN, UNKNOWN) is part of the update;
	// membership of the endpoint set - and so of the processor's host set - does not depend on it
	e.State = service.Endpoint_State(nd.IntRange("endpoint-state", 0, 2))
	if backup {
		e.Type = service.Endpoint_BACKUP
	}
	return e
}

// VfC08_Converge: after any history of dependency additions/removals, configuration updates and
// endpoint additions/removals, processed by the store and — at any relative speed — by the
// controller, once the event queue is drained there is exactly one running processor per service
// with a valid configuration and an endpoint list, with the latest configuration and exactly the
// store's endpoints as hosts.
func VfC08_Converge() {
	nd.ConcreteClock(true)
	steps := nd.Param("steps", 3)
	store := config.VfNewStore()
	ctl := &Controller{evtC: store.Subscribe(), procs: map[string]proc.Proc{}, quit: make(chan struct{}), done: make(chan struct{})}
	oldNew := newProc
	defer func() { newProc = oldNew }()
	var created []*vfProc
	newProc = func(name string, cfg *service.Config, hosts []*host.Host) (proc.Proc, error) {
		p := &vfProc{name: name, cfg: cfg, hosts: host.NewSet(hosts...)}
		created = append(created, p)
		return p, nil
	}
	names := []string{"s1", "s2"}
	hadValid := map[string]bool{}
	drain := func(max int) {
		for i := 0; i < max; i++ {
			select {
			case evt := <-ctl.evtC:
				ctl.handleEvent(evt)
			default:
				return
			}
		}
	}
	nd.PanicLabel("converge")
	if nd.Param("preadded", 0) >= 1 {
		// start from the state after "dependency s1 added" (every other update is ignored before it)
		store.VfDependency([]*service.Service{{Name: "s1"}}, nil)
	}
	if nd.Param("preadded", 0) == 2 {
		// ... and s1 has a valid configuration, one endpoint and a running processor
		store.VfSvcConfig("s1", vfCfg(9000))
		store.VfSvcEndpoints("s1", []*service.Endpoint{vfEndpoint(0, false)}, nil)
		hadValid["s1"] = true
		drain(64)
	}
	for s := 0; s < steps; s++ {
		name := names[nd.Concrete(nd.Choice("svc", nd.Param("services", 2)))]
		switch nd.Concrete(nd.IntRange("op", 0, 3)) {
		case 0:
			store.VfDependency([]*service.Service{{Name: name}}, nil)
		case 1:
			store.VfDependency(nil, []*service.Service{{Name: name}})
			hadValid[name] = false
		case 2:
			kind := nd.Concrete(nd.IntRange("cfg", 0, 2))
			known, cur, _ := store.VfView(name)
			var cfg *service.Config
			switch kind {
			case 0:
				cfg = vfCfg(9000)
			case 1:
				cfg = vfCfg(9001)
			case 2:
				// an invalid configuration appears only as a service's first configuration
				nd.Assume(!known || cur == nil)
				cfg = &service.Config{}
			}
			if known && kind != 2 {
				hadValid[name] = true
			}
			store.VfSvcConfig(name, cfg)
		case 3:
			var added, removed []*service.Endpoint
			switch nd.Concrete(nd.IntRange("add", 0, 3)) {
			case 1:
				added = append(added, vfEndpoint(0, false))
			case 2:
				added = append(added, vfEndpoint(0, true))
			case 3:
				added = append(added, vfEndpoint(1, false))
			}
			if nd.Bool("remove") {
				removed = append(removed, vfEndpoint(0, false))
			}
			store.VfSvcEndpoints(name, added, removed)
		}
		// the controller runs at any speed relative to the store
		if nd.Bool("controller-catches-up") {
			drain(64)
		}
	}
	drain(64)
	nd.Assert(store.VfPending() == 0, "the event queue is drained")
	for _, name := range names {
		known, cfg, eps := store.VfView(name)
		want := known && cfg != nil && cfg.Validate() == nil && eps != nil
		p, running := ctl.getProc(name)
		nd.Class("corrected-config-ignored", want && !running)
		nd.Assert(running == want, "a processor runs exactly for the services with a valid configuration and an endpoint list")
		if !running || !want {
			continue
		}
		nd.Cover("processor-running")
		vp := p.(*vfProc)
		nd.Assert(!vp.stopped, "the running processor was not stopped")
		nd.Assert(vp.cfg == cfg, "the processor's configuration is the latest configuration")
		hs := vp.hosts.All()
		nd.Class("same-address-removed-and-added", true)
		nd.Assert(len(hs) == len(eps), "the processor's host set has exactly the store's endpoints (count)")
		for _, e := range eps {
			addr := fmt.Sprintf("%s:%d", e.Address.Ip, e.Address.Port)
			found := false
			for _, h := range hs {
				if h.Addr == addr {
					found = true
					wantT := host.TypeMain
					if e.Type == service.Endpoint_BACKUP {
						wantT = host.TypeBackup
					}
					nd.Assert(h.Type == wantT, "host type equals endpoint type")
				}
			}
			nd.Assert(found, "every endpoint of the store is a host of the processor")
		}
	}
	running := 0
	for _, p := range created {
		if !p.stopped {
			running++
		}
	}
	nd.Assert(running == len(ctl.procs), "no processor keeps running outside the controller's table (exactly one per service)")
}
