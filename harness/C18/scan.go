//vf:pkg proc/redis
package redis

import (
	"strconv"

	nd "github.com/samaritan-proxy/samaritan/vfnd"
)

// VfC18_CursorAlgebra: the client cursor packs (node index, node cursor) losslessly.
func VfC18_CursorAlgebra() {
	r := &scanRequest{}
	idx := nd.Uint16("idx")
	cur := nd.Uint64("cur")
	if cur < 1<<48 {
		nd.Cover("below-2^48")
		i2, c2 := r.parseCursor(r.genCursor(idx, cur))
		nd.Assert(i2 == idx && c2 == cur, "parse(gen(i,c)) == (i,c) for every node cursor below 2^48")
	}
	x := nd.Uint64("x")
	i3, c3 := r.parseCursor(x)
	nd.Assert(r.genCursor(i3, c3) == x, "gen(parse(x)) == x for every 64-bit cursor")
	nd.Assert(c3 < 1<<48, "parsed node cursor is below 2^48")
}

var vfCursorVals = []uint64{0, 5, 1 << 47, 1<<48 - 1, 1<<47 + 12345}

// VfC18_Iteration: a client iterating SCAN from cursor 0, feeding each returned cursor back,
// visits node 0's cursor chain, then node 1's, ..., and gets cursor 0 only after the last node.
// Backends return arbitrary next cursors from a set of boundary values (0 ends a node), pages may
// be empty with a non-zero cursor, MATCH/COUNT are forwarded untouched.
func VfC18_Iteration() {
	nd.PoolReuse(true) // pooled buffers are handed out again at once: a reply must not live in one
	var prevResp *RespValue
	var prevCursor []byte
	nh := nd.Param("hosts", 2)
	rounds := nd.Param("rounds", 2)
	addrs := []string{"10.0.0.1:7000", "10.0.0.2:7000", "10.0.0.3:7000"}[:nh]
	u, clients := vfNewUpstream(nil, addrs...)
	cursor := []byte("0")
	node, nodeCur, nodeRounds := 0, uint64(0), 0
	finished := false
	pat := []byte("user:*")
	for step := 0; step < nh*rounds+1 && !finished; step++ {
		raw := newRawRequest(newArray(*newBulkString("scan"), *newBulkBytes(cursor), *newBulkString("MATCH"), *newBulkBytes(pat), *newBulkString("COUNT"), *newBulkString("10")))
		nd.PanicLabel("handleScan")
		// what the session's writer may read the moment the request is completed (it is woken by
		// the completion itself)
		var atCompletion []byte
		raw.RegisterHook(func(r *rawRequest) {
			if resp := r.Response(); resp != nil && resp.Type == Array && len(resp.Array) == 2 {
				atCompletion = append([]byte(nil), resp.Array[0].Text...)
			}
		})
		handleScan(u, raw)
		var sreq *simpleRequest
		got := -1
		for i, a := range addrs {
			if r := vfTake(clients[a]); r != nil {
				nd.Assert(sreq == nil, "one SCAN is forwarded to one node only")
				sreq, got = r, i
			}
		}
		if node >= nh {
			nd.Assert(sreq == nil && vfDone(raw.done), "after the last node the proxy answers itself")
			resp := raw.Response()
			nd.Assert(resp.Type == Array && len(resp.Array) == 2 && vfBytesEq(resp.Array[0].Text, []byte("0")) && len(resp.Array[1].Array) == 0,
				"a cursor past the last node yields the terminating reply")
			finished = true
			nd.Cover("terminated-by-proxy")
			break
		}
		nd.Assert(sreq != nil && got == node, "the SCAN goes to the node the cursor names")
		if sreq == nil {
			return
		}
		b := sreq.Body().Array
		nd.Assert(len(b) == 6 && vfBytesEq(b[1].Text, []byte(strconv.FormatUint(nodeCur, 10))), "the node receives its own cursor")
		nd.Assert(vfBytesEq(b[2].Text, []byte("MATCH")) && vfBytesEq(b[3].Text, pat) && vfBytesEq(b[4].Text, []byte("COUNT")) && vfBytesEq(b[5].Text, []byte("10")), "MATCH and COUNT are passed through")
		// the backend's answer
		var next uint64
		nodeRounds++
		if nodeRounds < rounds {
			next = vfCursorVals[nd.Concrete(nd.Choice("next", len(vfCursorVals)))]
		}
		nkeys := nd.IntRange("nkeys", 0, 1)
		keys := []RespValue{}
		if nkeys == 1 {
			keys = append(keys, *newBulkString("user:1"))
		}
		sreq.SetResponse(newArray(*newBulkString(strconv.FormatUint(next, 10)), *newArray(keys...)))
		nd.Assert(vfDone(raw.done), "the client's SCAN is answered when the node answers")
		resp := raw.Response()
		nd.Assert(resp.Type == Array && len(resp.Array) == 2 && len(resp.Array[1].Array) == nkeys, "the node's keys are returned, no others")
		nd.Assert(vfBytesEq(atCompletion, resp.Array[0].Text), "the reply is final when the request is completed (the cursor is not rewritten after the writer was woken)")
		if prevResp != nil {
			// the previous reply may still be waiting to be written (pipelined SCANs, other sessions)
			nd.Assert(vfBytesEq(prevResp.Array[0].Text, prevCursor), "a SCAN reply keeps its cursor while later SCAN replies are converted")
		}
		prevResp, prevCursor = resp, append([]byte(nil), resp.Array[0].Text...)
		cursor = append([]byte(nil), resp.Array[0].Text...)
		if next == 0 {
			node, nodeCur, nodeRounds = node+1, 0, 0
		} else {
			nodeCur = next
			nd.Cover("node-continues")
			if nkeys == 0 {
				nd.Cover("empty-page-nonzero-cursor")
			}
		}
		if vfBytesEq(cursor, []byte("0")) {
			nd.Assert(node >= nh, "cursor 0 is returned only after the last node finished")
			finished = true
		} else {
			// the cursor handed to the client names (next node to visit, its cursor); after the last
			// node it names the node past the end, and the next call gets the terminating reply
			cv, err := strconv.ParseUint(string(cursor), 10, 64)
			nd.Assert(err == nil && cv>>48 == uint64(node) && cv&(1<<48-1) == nodeCur, "the returned cursor encodes (node to visit next, its cursor)")
		}
	}
	nd.Assert(finished, "the iteration terminates within nodes x rounds + 1 calls")
}

// VfC18_NodeUnreachable: SCAN names its node explicitly. When that node cannot be reached the
// client gets an error it can retry with the same cursor; the call is never answered by another
// node (whose cursor space is unrelated), so no part of the key space is skipped silently.
func VfC18_NodeUnreachable() {
	addrs := []string{"10.0.0.1:7000", "10.0.0.2:7000"}
	u, clients := vfNewUpstream(nil, addrs...)
	down := nd.Concrete(nd.IntRange("down", 0, 1))
	hosts := u.Hosts()
	idx := -1
	for i, h := range hosts {
		if h.Addr == addrs[down] {
			idx = i
		}
	}
	nd.Assume(idx >= 0)
	u.removeClient(addrs[down]) // no connection to it, and connecting is refused (net.DialTimeout stub)
	nodeCur := vfCursorVals[nd.Concrete(nd.Choice("cur", len(vfCursorVals)))]
	cursor := strconv.FormatUint(uint64(idx)<<48|nodeCur, 10)
	raw := newRawRequest(newArray(*newBulkString("scan"), *newBulkString(cursor)))
	nd.PanicLabel("handleScan")
	handleScan(u, raw)
	nd.Assert(vfForwarded(clients) == 0, "a SCAN for an unreachable node is not sent to any other node")
	nd.Assert(vfDone(raw.done) && raw.Response().Type == Error, "the client gets an error reply (and can retry with the same cursor)")
	nd.Cover("unreachable-node")
}

var vfClientCursors = []string{"0", "281474976710656", "562949953421312", "9223372036854775807", "18446744073709551615", "-1", "abc", "", "99999999999999999999"}

// VfC18_ClientCursor: any client-supplied cursor yields an error reply, the terminating reply or
// one forwarded SCAN — never a crash.
func VfC18_ClientCursor() {
	addrs := []string{"10.0.0.1:7000", "10.0.0.2:7000"}
	u, clients := vfNewUpstream(nil, addrs...)
	cur := vfClientCursors[nd.Concrete(nd.Choice("cur", len(vfClientCursors)))]
	raw := newRawRequest(newArray(*newBulkString("scan"), *newBulkString(cur)))
	nd.PanicLabel("handleScan")
	handleScan(u, raw)
	n := 0
	for _, a := range addrs {
		if vfTake(clients[a]) != nil {
			n++
		}
	}
	if vfDone(raw.done) {
		nd.Assert(n == 0, "a SCAN answered by the proxy is not forwarded")
		nd.Cover("answered-locally")
	} else {
		nd.Assert(n == 1, "an unanswered SCAN was forwarded to exactly one node")
		nd.Cover("forwarded")
	}
}
