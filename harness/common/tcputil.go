//vf:pkg proc/tcp
package tcp

import (
	"errors"
	"io"
	"net"
	"time"

	"github.com/samaritan-proxy/samaritan/host"
	"github.com/samaritan-proxy/samaritan/pb/config/service"
	"github.com/samaritan-proxy/samaritan/proc"
	"github.com/samaritan-proxy/samaritan/proc/internal/lb"
	"github.com/samaritan-proxy/samaritan/proc/internal/log"
	"github.com/samaritan-proxy/samaritan/stats"

	nd "github.com/samaritan-proxy/samaritan/vfnd"
)

// vfConn is a scripted net.Conn: reads deliver the scripted chunks, then EOF or an error; writes
// are recorded (optionally one write is short or fails). Every call is appended to a shared log.
type vfConn struct {
	name    string
	reads   [][]byte
	pos     int
	readErr error // nil = EOF after the script
	written []byte
	failAt  int // index of the write that fails (-1: none)
	short   bool
	nwrites int
	closed  bool
	noHalf  bool // CloseWrite/CloseRead report an error
	log     *[]string
	slowWriteAt int  // index of the write that takes a long time (-1: none)
	checkDeadline bool // compare armed deadlines with the clock
	pastDeadline bool // a read deadline was set that had already expired
	idle          time.Duration // the idle time-out the harness configured (0: unknown)
	shortDeadline bool          // a read deadline was armed at less than half the idle time-out
	gaps          []int         // pause (in clock units) before the peer sends read i
	armed         time.Time     // the read deadline in force
	wArmed        time.Time     // the write deadline in force
}

var vfErrIO = errors.New("vf: i/o error")

func (c *vfConn) ev(s string) { *c.log = append(*c.log, s+":"+c.name) }

// vfTimeout is the error of a read whose deadline passed before data arrived.
type vfTimeout struct{}

func (vfTimeout) Error() string   { return "vf: i/o timeout" }
func (vfTimeout) Timeout() bool   { return true }
func (vfTimeout) Temporary() bool { return true }

func (c *vfConn) Read(p []byte) (int, error) {
	if c.closed {
		return 0, vfErrIO
	}
	if c.pos < len(c.gaps) && c.gaps[c.pos] > 0 {
		// the peer pauses before it sends its next bytes; a real connection gives up the read when
		// the armed deadline passes first
		nd.AdvanceClock(c.gaps[c.pos])
		c.gaps[c.pos] = 0
		if !c.armed.IsZero() && time.Now().After(c.armed) {
			c.ev("TIMEOUT")
			return 0, vfTimeout{}
		}
	}
	if c.pos >= len(c.reads) {
		c.ev("EOF")
		if c.readErr != nil {
			return 0, c.readErr
		}
		return 0, io.EOF
	}
	n := copy(p, c.reads[c.pos])
	if n < len(c.reads[c.pos]) {
		c.reads[c.pos] = c.reads[c.pos][n:]
	} else {
		c.pos++
	}
	c.ev("R")
	return n, nil
}

func (c *vfConn) Write(p []byte) (int, error) {
	c.ev("W")
	k := c.nwrites
	if k == c.slowWriteAt && c.slowWriteAt >= 0 {
		nd.AdvanceClock(30) // the peer is slow to take the data: longer than the idle time-out
	}
	if !c.wArmed.IsZero() && time.Now().After(c.wArmed) {
		// a write deadline is in force and has passed (nobody configured a write time-out): a
		// socket gives the write up
		c.ev("WTIMEOUT")
		c.nwrites++
		return 0, vfTimeout{}
	}
	c.nwrites++
	if c.closed {
		return 0, vfErrIO
	}
	if k == c.failAt {
		if c.short && len(p) > 0 {
			c.written = append(c.written, p[:len(p)-1]...)
			return len(p) - 1, nil
		}
		return 0, vfErrIO
	}
	c.written = append(c.written, p...)
	return len(p), nil
}

func (c *vfConn) Close() error { c.ev("C"); c.closed = true; return nil }
func (c *vfConn) CloseWrite() error {
	c.ev("CW")
	if c.noHalf {
		return vfErrIO
	}
	return nil
}
func (c *vfConn) CloseRead() error {
	c.ev("CR")
	if c.noHalf {
		return vfErrIO
	}
	return nil
}
func (c *vfConn) LocalAddr() net.Addr                { return nil }
func (c *vfConn) RemoteAddr() net.Addr               { return nil }
func (c *vfConn) SetDeadline(t time.Time) error      { c.ev("D"); c.armed, c.wArmed = t, t; return nil }
func (c *vfConn) SetReadDeadline(t time.Time) error {
	c.ev("RD")
	c.armed = t
	if c.checkDeadline && t.Before(time.Now()) { // only under the concrete clock (forks on symbolic instants)
		c.pastDeadline = true
	}
	if c.idle > 0 && !t.IsZero() && t.Before(time.Now().Add(c.idle/2)) {
		c.shortDeadline = true
	}
	return nil
}
func (c *vfConn) SetWriteDeadline(t time.Time) error { c.ev("WD"); c.wArmed = t; return nil }

type vfLn struct{}

func (vfLn) Address() string { return "vf:0" }
func (vfLn) Serve() error    { return nil }
func (vfLn) Drain() error    { return nil }
func (vfLn) Stop() error     { return nil }

func vfNewTCPProc(policy service.LoadBalancePolicy, hosts ...*host.Host) *tcpProc {
	d := 10 * nd.Unit()
	ct := 3 * nd.Unit() // deliberately different from the idle time-out
	cfg := &service.Config{IdleTimeout: &d, ConnectTimeout: &ct, LbPolicy: policy}
	return &tcpProc{
		Logger:  log.New("vf"),
		stats:   proc.NewStats(stats.CreateScope("vf.")),
		name:    "vf",
		cfg:     cfg,
		hostSet: host.NewSet(hosts...),
		lb:      lb.New(policy),
		ln:      vfLn{},
	}
}

// vfScript fills a conn with up to `maxReads` reads of symbolic size and content.
func vfScript(c *vfConn, maxReads, maxChunk int) []byte {
	var all []byte
	n := nd.Concrete(nd.IntRange("reads", 0, maxReads))
	for i := 0; i < n; i++ {
		l := nd.Concrete(nd.IntRange("chunk", 1, maxChunk))
		b := nd.Bytes("data", l)
		c.reads = append(c.reads, b)
		all = append(all, b...)
	}
	if nd.Bool("read-error") {
		c.readErr = vfErrIO
	}
	return all
}

func vfIndex(log []string, ev string) int {
	for i, e := range log {
		if e == ev {
			return i
		}
	}
	return -1
}

func vfLastIndex(log []string, ev string) int {
	r := -1
	for i, e := range log {
		if e == ev {
			r = i
		}
	}
	return r
}

func vfCount(log []string, ev string) int {
	n := 0
	for _, e := range log {
		if e == ev {
			n++
		}
	}
	return n
}

func vfBytesEq(a, b []byte) bool {
	if len(a) != len(b) {
		return false
	}
	for i := range a {
		if a[i] != b[i] {
			return false
		}
	}
	return true
}

// vfIdleConn: scripted reads, then the connection stays open (Read blocks) until `release` is
// closed (the peer finishes: EOF) or the connection itself is closed.
type vfIdleConn struct {
	vfConn
	closedCh chan struct{}
	release  chan struct{}
	wake     chan struct{}
}

func vfNewIdleConn(name string, log *[]string) *vfIdleConn {
	return &vfIdleConn{vfConn: vfConn{name: name, failAt: -1, slowWriteAt: -1, log: log}, closedCh: make(chan struct{}), release: make(chan struct{}), wake: make(chan struct{}, 1)}
}

func (c *vfIdleConn) Read(p []byte) (int, error) {
	for {
		if c.pos < len(c.reads) && !c.closed {
			return c.vfConn.Read(p)
		}
		select {
		case <-c.closedCh:
			return 0, vfErrIO
		case <-c.release:
			c.ev("EOF")
			return 0, io.EOF
		case <-c.wake: // more data was scripted
		}
	}
}

// kick wakes a blocked Read after the harness appended to the script.
func (c *vfIdleConn) kick() {
	select {
	case c.wake <- struct{}{}:
	default:
	}
}

func (c *vfIdleConn) Close() error {
	if !c.closed {
		close(c.closedCh)
	}
	return c.vfConn.Close()
}
