// Package vfnd is the "nondet" interface used by verification harnesses.
//
// Under the symbolic executor (/verif/engine) every function here is intercepted: Int/Byte/...
// create SMT variables, Assume extends the path condition, Assert creates a proof obligation.
// Compiled natively (replay), the values come from the replay file named by $VF_REPLAY, so the
// same harness is the replay test for a solver-produced counterexample.
//
// This file is injected by overlay as /repo/vfnd/nd.go; it is never written into /repo.
package vfnd

import (
	"encoding/json"
	"fmt"
	"io/ioutil"
	"os"
	"reflect"
	"runtime"
	"runtime/debug"
	"time"
)

func quiesceNative() { time.Sleep(300 * time.Millisecond) }

type replayFile struct {
	ND     map[string]uint64 `json:"nd"`
	Params map[string]int    `json:"params"`
}

var params map[string]int

// Param is a bound of the harness (concrete). The check's tier may override the default.
func Param(name string, def int) int {
	load()
	if v, ok := params[name]; ok {
		return v
	}
	return def
}

var (
	vals   map[string]uint64
	counts = map[string]int{}
	loaded bool
	// Covered records Cover labels reached natively.
	Covered = map[string]bool{}
)

// AssumeFailed / AssertFailed are panic payloads used natively.
type AssumeFailed struct{}
type AssertFailed struct{ Msg string }

func (a AssertFailed) String() string { return "vf assert failed: " + a.Msg }

func load() {
	if loaded {
		return
	}
	loaded = true
	vals = map[string]uint64{}
	p := os.Getenv("VF_REPLAY")
	if p == "" {
		return
	}
	b, err := ioutil.ReadFile(p)
	if err != nil {
		panic(err)
	}
	var rf replayFile
	if err := json.Unmarshal(b, &rf); err != nil {
		panic(err)
	}
	vals = rf.ND
	params = rf.Params
}

// Reset clears occurrence counters (between replays in one process).
func Reset() { counts = map[string]int{}; loaded = false }

func next(name string) uint64 {
	load()
	k := fmt.Sprintf("%s#%d", name, counts[name])
	counts[name]++
	return vals[k]
}

// Symbolic reports whether the harness runs under the symbolic executor.
func Symbolic() bool { return false }

func Int(name string) int       { return int(int64(next(name))) }
func Int64(name string) int64   { return int64(next(name)) }
func Uint64(name string) uint64 { return next(name) }
func Uint32(name string) uint32 { return uint32(next(name)) }
func Uint16(name string) uint16 { return uint16(next(name)) }
func Byte(name string) byte     { return byte(next(name)) }
func Bool(name string) bool     { return next(name) != 0 }

// IntRange returns an arbitrary int in [lo, hi].
func IntRange(name string, lo, hi int) int {
	v := Int(name)
	Assume(v >= lo && v <= hi)
	return v
}

// Choice returns an arbitrary int in [0, n).
func Choice(name string, n int) int { return IntRange(name, 0, n-1) }

// Bytes returns a fresh slice of n arbitrary bytes (n must be concrete).
func Bytes(name string, n int) []byte {
	b := make([]byte, n)
	for i := range b {
		b[i] = Byte(name)
	}
	return b
}

// String returns a fresh string of n arbitrary bytes.
func String(name string, n int) string { return string(Bytes(name, n)) }

// Assume restricts the inputs considered. Place it before the code it constrains.
func Assume(c bool) {
	if !c {
		panic(AssumeFailed{})
	}
}

// Assert is a proof obligation: it must hold on every path.
func Assert(c bool, msg string) {
	if !c {
		panic(AssertFailed{msg})
	}
}

// Cover marks a point that must be reachable (vacuity witness).
func Cover(label string) { Covered[label] = true }

// Class names a failure class for the assertion that follows (known-findings bookkeeping).
func Class(label string, cond bool) {}

// ExpectPanic declares that a Go run-time panic in the code that follows is what the harness
// tests for and is reported under the given obligation label.
func PanicLabel(label string) {}

// Note attaches a value to the counterexample report (symbolic: the model value is printed).
func Note(label string, v int) {}

// Replace makes the executor run fn instead of the named function (full go/ssa name, e.g.
// "(*net.UnixConn).ReadMsgUnix"). Natively it has no effect: native doubles are provided separately.
func Replace(name string, fn interface{}) {}

// Quiesce blocks the harness goroutine until no other goroutine can make progress.
func Quiesce() { quiesceNative() }

// AllFinished reports whether every goroutine started by the harness has returned.
func AllFinished() bool { return true }

// CopyN copies src[0:n] to dst[0:n]; under the executor n may be symbolic without forking.
func CopyN(dst, src []byte, n int) { copy(dst[:n], src[:n]) }

// Concrete returns v; under the executor the path is split over the feasible values of v so that
// the result is a constant on each path (use for small value sets only).
func Concrete(v int) int { return v }

// ConcreteU64 is Concrete for uint64 values.
func ConcreteU64(v uint64) uint64 { return v }

// PoolReuse(true) lets the executor explore sync.Pool.Get returning previously Put objects.
func PoolReuse(on bool) {}

// ConcreteClock(true) makes the executor's clock stub return fixed increasing instants (the
// property under check must not depend on the clock).
func ConcreteClock(on bool) {}

// Pause gives other goroutines time to run natively (20ms); no effect under the executor, which
// explores the orders itself.
func Pause() { time.Sleep(20 * time.Millisecond) }

// VisibleAtomics(true) makes sync/atomic operations scheduling points of the executor.
func VisibleAtomics(on bool) {}

// Watch makes the executor treat every plain load and store of the object p points into as a
// scheduling point (bounded by the pre-emption bound): data races on ordinary fields - lost
// updates, multi-step updates seen half done - become explorable. No effect natively.
func Watch(p interface{}) {}

// WatchAll(true) does the same for every object that is not a non-escaping local variable: meant
// for short windows (a few callbacks running concurrently).
func WatchAll(on bool) {}

// LazyTimers(true): a timer examined by a select need not have fired yet — the goroutine may stay
// parked on it while everything else runs, and "time passes" (the timer fires) only when nothing
// else can move, or after Quiesce has returned to the harness. Without it a timer that is examined
// always fires at once. No effect natively.
func LazyTimers(on bool) {}

// Depth returns the depth of the calling goroutine's call stack (frames). The executor counts its
// own frames, the native build asks the runtime; only differences between two calls are meaningful.
func Depth() int {
	var pcs [4096]uintptr
	return runtime.Callers(0, pcs[:])
}

// StackLimit declares that the code run by the harness from here on needs at most n frames of call
// stack: under the executor a deeper call is reported as a stack overflow (unbounded recursion
// cannot be followed to its end symbolically). Natively the goroutine stack limit is lowered so
// that a runaway recursion ends in Go's fatal "stack overflow" within milliseconds.
func StackLimit(n int) { debug.SetMaxStack(n * 4096) }

// SliceLen / SwapElems: length of, and swap within, a slice held in an interface value. Under the
// executor they are intrinsics; natively they use reflection.
func SliceLen(x interface{}) int { return reflect.ValueOf(x).Len() }

func SwapElems(x interface{}, i, j int) { reflect.Swapper(x)(i, j) }

// ModelSortSliceStable is what the executor runs in place of sort.SliceStable and sort.Slice (which
// are built on reflection): a stable insertion sort driven by the caller's less function. For
// sort.Slice this is one of the permitted results (the library does not promise an order among
// equal elements).
func ModelSortSliceStable(x interface{}, less func(i, j int) bool) {
	n := SliceLen(x)
	for i := 1; i < n; i++ {
		for j := i; j > 0 && less(j, j-1); j-- {
			SwapElems(x, j, j-1)
		}
	}
}

// ModelAfterFunc is what the executor runs in place of time.AfterFunc: a goroutine that waits for a
// timer of the executor's timer model and then calls f.
func ModelAfterFunc(d time.Duration, f func()) *time.Timer {
	t := time.NewTimer(d)
	go func() {
		<-t.C
		f()
	}()
	return t
}

// ModelSliceIsSorted is what the executor runs in place of sort.SliceIsSorted.
func ModelSliceIsSorted(x interface{}, less func(i, j int) bool) bool {
	n := SliceLen(x)
	for i := n - 1; i > 0; i-- {
		if less(i, i-1) {
			return false
		}
	}
	return true
}

// AdvanceClock lets n seconds of the executor's concrete clock pass; natively it sleeps n*10ms
// (harnesses scale their time-outs accordingly, see Unit).
func AdvanceClock(n int) { time.Sleep(time.Duration(n) * 10 * time.Millisecond) }

// Unit is the harness's time unit: one second of the executor's concrete clock, 10ms natively.
func Unit() time.Duration {
	if Symbolic() {
		return time.Second
	}
	return 10 * time.Millisecond
}
