package sym

import (
	"fmt"
	"go/types"
	"strings"

	"golang.org/x/tools/go/ssa"
	"vf/smt"
)

func (e *Engine) constStrArg(st *State, v Value, what string) string {
	s, ok := v.(Str)
	if ok {
		if cs, ok := e.strConcrete(st, s); ok {
			return cs
		}
	}
	e.unsupported("%s: argument must be a constant string", what)
	return ""
}

func (e *Engine) ndVar(st *State, name string, w int, signed bool) *smt.Term {
	k := fmt.Sprintf("%s#%d", name, st.ndCount[name])
	st.ndCount[name]++
	t := e.C.Var(k, w)
	st.Vars = append(st.Vars, NDVar{Name: k, T: t, Sign: signed})
	return t
}

func ndIntr(w int, signed bool, asBool bool) Intrinsic {
	return func(e *Engine, st *State, th *Thread, args []Value, call *ssa.CallCommon) (Value, bool) {
		name := e.constStrArg(st, args[0], "nd variable name")
		if asBool {
			t := e.ndVar(st, name, 8, false)
			return e.C.Ne(t, e.C.BV(0, 8)), true
		}
		return e.ndVar(st, name, w, signed), true
	}
}

func registerIntrinsics(e *Engine) {
	nd := NDPkg + "."
	I := e.intr
	I[nd+"Int"] = ndIntr(64, true, false)
	I[nd+"Int64"] = ndIntr(64, true, false)
	I[nd+"Uint64"] = ndIntr(64, false, false)
	I[nd+"Uint32"] = ndIntr(32, false, false)
	I[nd+"Uint16"] = ndIntr(16, false, false)
	I[nd+"Byte"] = ndIntr(8, false, false)
	I[nd+"Bool"] = ndIntr(8, false, true)
	I[nd+"Param"] = func(e *Engine, st *State, th *Thread, args []Value, call *ssa.CallCommon) (Value, bool) {
		name := e.constStrArg(st, args[0], "Param name")
		if v, ok := e.Opt.Params[name]; ok {
			e.res.Params[name] = v
			return e.i64(uint64(int64(v))), true
		}
		d := args[1].(*smt.Term)
		e.res.Params[name] = int(int64(d.Val))
		return d, true
	}
	// CopyN: dst[i] = src[i] for i < n (n symbolic), without forking on n.
	I[nd+"CopyN"] = func(e *Engine, st *State, th *Thread, args []Value, call *ssa.CallCommon) (Value, bool) {
		dst, src, n := args[0].(Slice), args[1].(Slice), args[2].(*smt.Term)
		c := e.C
		e.oblige(st, c.AndN(c.Sge(n, e.i64(0)), c.Ule(n, dst.Len), c.Ule(n, src.Len)), "assert", "CopyN bounds", "nd.CopyN: n within both slices")
		max := dst.ArrLen
		if dst.Len.IsConst() {
			max = int(dst.Len.Val)
		}
		if src.Len.IsConst() && int(src.Len.Val) < max {
			max = int(src.Len.Val)
		}
		if src.ArrLen < max {
			max = src.ArrLen
		}
		u8 := types.Typ[types.Uint8]
		for k := 0; k < max; k++ {
			kk := e.i64(uint64(k))
			in := c.Ult(kk, n)
			if in.IsFalse() {
				break
			}
			sv := e.load(st, e.elemPtr(src, kk), u8).(*smt.Term)
			dp := e.elemPtr(dst, kk)
			dv := e.load(st, dp, u8).(*smt.Term)
			e.store(st, dp, u8, c.Ite(in, sv, dv))
		}
		return nil, true
	}
	I["encoding/json.Marshal"] = func(e *Engine, st *State, th *Thread, args []Value, call *ssa.CallCommon) (Value, bool) {
		iv := args[0].(Iface)
		if iv.T != nil {
			if pt, ok := iv.T.Underlying().(*types.Pointer); ok {
				if stt, ok := pt.Elem().Underlying().(*types.Struct); ok && stt.NumFields() == 0 {
					sl := e.strToSlice(st, Str{IsConst: true, S: "{}"})
					return Tuple{[]Value{sl, Iface{}}}, true
				}
			}
		}
		e.unsupported("json.Marshal of %v", iv.T)
		return nil, true
	}
	I[nd+"Concrete"] = func(e *Engine, st *State, th *Thread, args []Value, call *ssa.CallCommon) (Value, bool) {
		return e.i64(e.concretize(st, args[0].(*smt.Term), "nd.Concrete")), true
	}
	I[nd+"ConcreteU64"] = I[nd+"Concrete"]
	// PoolReuse(true): sync.Pool.Get may return any object previously Put (explored by forking);
	// default: Get always returns New() and Put discards.
	I[nd+"PoolReuse"] = func(e *Engine, st *State, th *Thread, args []Value, call *ssa.CallCommon) (Value, bool) {
		st.PoolReuse = args[0].(*smt.Term).IsTrue()
		return nil, true
	}
	// ConcreteClock(true): time.Now/Since/UnixNano return fixed increasing values instead of
	// symbolic ones (for harnesses whose property does not depend on the clock).
	I[nd+"ConcreteClock"] = func(e *Engine, st *State, th *Thread, args []Value, call *ssa.CallCommon) (Value, bool) {
		st.ConcreteClock = args[0].(*smt.Term).IsTrue()
		return nil, true
	}
	// Pause: time passes. Natively a short sleep; under the executor a free yield point: the other
	// runnable goroutines may run now (not counted against the pre-emption bound).
	I[nd+"Pause"] = func(e *Engine, st *State, th *Thread, args []Value, call *ssa.CallCommon) (Value, bool) {
		if th.Yielded {
			th.Yielded = false
			return nil, true
		}
		if e.Opt.Preempt < 0 || e.initMode {
			return nil, true
		}
		others := false
		for i, t := range st.Threads {
			if i != st.Cur && e.runnable(st, t) {
				others = true
			}
		}
		if !others {
			return nil, true
		}
		if e.chooseFree(st, 2, "yield at nd.Pause") == 0 {
			return nil, true
		}
		th.Yielded = true
		st.NeedSched = true
		st.YieldFrom = th.ID
		return nil, false
	}
	I[nd+"VisibleAtomics"] = func(e *Engine, st *State, th *Thread, args []Value, call *ssa.CallCommon) (Value, bool) {
		st.VisibleAtomics = args[0].(*smt.Term).IsTrue()
		return nil, true
	}
	// Watch(p): plain loads and stores of the object p points into become scheduling points
	// (data races on ordinary fields: lost updates, torn multi-step updates).
	I[nd+"Watch"] = func(e *Engine, st *State, th *Thread, args []Value, call *ssa.CallCommon) (Value, bool) {
		if ifc, ok := args[0].(Iface); ok {
			if p, ok := ifc.V.(Ptr); ok && p.Obj != 0 {
				st.Watched = append(st.Watched[:len(st.Watched):len(st.Watched)], p.Obj)
				return nil, true
			}
		}
		e.unsupported("nd.Watch needs a non-nil pointer")
		return nil, true
	}
	// escape-analysis hint: the identity (its xor trick on the pointer bits is not modelled)
	I["internal/abi.NoEscape"] = func(e *Engine, st *State, th *Thread, args []Value, call *ssa.CallCommon) (Value, bool) {
		return args[0], true
	}
	I["internal/bytealg.MakeNoZero"] = func(e *Engine, st *State, th *Thread, args []Value, call *ssa.CallCommon) (Value, bool) {
		n := args[0].(*smt.Term)
		if !n.IsConst() {
			e.unsupported("bytealg.MakeNoZero with symbolic length")
		}
		return e.strToSlice(st, Str{IsConst: true, S: string(make([]byte, int(n.Val)))}), true
	}
	I[nd+"Depth"] = func(e *Engine, st *State, th *Thread, args []Value, call *ssa.CallCommon) (Value, bool) {
		return e.i64(uint64(len(th.Frames))), true
	}
	I[nd+"StackLimit"] = func(e *Engine, st *State, th *Thread, args []Value, call *ssa.CallCommon) (Value, bool) {
		n := args[0].(*smt.Term)
		if !n.IsConst() {
			e.unsupported("nd.StackLimit with a symbolic limit")
		}
		st.StackLimit = int(n.Val)
		return nil, true
	}
	I[nd+"SliceLen"] = func(e *Engine, st *State, th *Thread, args []Value, call *ssa.CallCommon) (Value, bool) {
		sl, ok := args[0].(Iface).V.(Slice)
		if !ok {
			e.unsupported("nd.SliceLen of a non-slice")
		}
		return sl.Len, true
	}
	I[nd+"SwapElems"] = func(e *Engine, st *State, th *Thread, args []Value, call *ssa.CallCommon) (Value, bool) {
		iv := args[0].(Iface)
		sl, ok := iv.V.(Slice)
		if !ok {
			e.unsupported("nd.SwapElems of a non-slice")
		}
		et := iv.T.Underlying().(*types.Slice).Elem()
		i, j := args[1].(*smt.Term), args[2].(*smt.Term)
		e.boundsCheck(st, i, sl.Len, "swap index")
		e.boundsCheck(st, j, sl.Len, "swap index")
		pi, pj := e.elemPtr(sl, i), e.elemPtr(sl, j)
		vi, vj := e.load(st, pi, et), e.load(st, pj, et)
		e.store(st, pi, et, vj)
		e.store(st, pj, et, vi)
		return nil, true
	}
	I[nd+"LazyTimers"] = func(e *Engine, st *State, th *Thread, args []Value, call *ssa.CallCommon) (Value, bool) {
		st.LazyTimers = args[0].(*smt.Term).IsTrue()
		return nil, true
	}
	I[nd+"WatchAll"] = func(e *Engine, st *State, th *Thread, args []Value, call *ssa.CallCommon) (Value, bool) {
		st.WatchAll = args[0].(*smt.Term).IsTrue()
		return nil, true
	}
	// AdvanceClock(n): time passes (n seconds of the concrete clock).
	I[nd+"AdvanceClock"] = func(e *Engine, st *State, th *Thread, args []Value, call *ssa.CallCommon) (Value, bool) {
		n := args[0].(*smt.Term)
		if !n.IsConst() {
			e.unsupported("AdvanceClock with a symbolic amount")
		}
		st.ClockTick += int64(n.Val)
		return nil, true
	}
	I[nd+"Symbolic"] = func(e *Engine, st *State, th *Thread, args []Value, call *ssa.CallCommon) (Value, bool) {
		return e.C.True, true
	}
	I[nd+"Unit"] = func(e *Engine, st *State, th *Thread, args []Value, call *ssa.CallCommon) (Value, bool) {
		return e.i64(1000000000), true
	}
	I[nd+"Assume"] = func(e *Engine, st *State, th *Thread, args []Value, call *ssa.CallCommon) (Value, bool) {
		c := args[0].(*smt.Term)
		if c.IsTrue() {
			return nil, true
		}
		if len(st.replay) > 0 {
			e.assertPC(st, c)
			return nil, true
		}
		if v, ok := e.evalModel(st, c); ok && v == 1 {
			e.assertPC(st, c)
			return nil, true
		}
		r, m := e.check(st, c, true)
		if r == smt.Unsat {
			panic(abort{"infeasible", "assumption"})
		}
		e.assertPC(st, c)
		st.Model = m
		return nil, true
	}
	I[nd+"Assert"] = func(e *Engine, st *State, th *Thread, args []Value, call *ssa.CallCommon) (Value, bool) {
		msg := e.constStrArg(st, args[1], "Assert message")
		e.oblige(st, args[0].(*smt.Term), "assert", msg, msg)
		return nil, true
	}
	I[nd+"Cover"] = func(e *Engine, st *State, th *Thread, args []Value, call *ssa.CallCommon) (Value, bool) {
		l := e.constStrArg(st, args[0], "Cover label")
		if !st.Covers[l] {
			st.Covers[l] = true
		}
		return nil, true
	}
	I[nd+"Class"] = func(e *Engine, st *State, th *Thread, args []Value, call *ssa.CallCommon) (Value, bool) {
		l := e.constStrArg(st, args[0], "Class label")
		st.Classes = append(st.Classes, ClassDecl{l, args[1].(*smt.Term)})
		return nil, true
	}
	I[nd+"PanicLabel"] = func(e *Engine, st *State, th *Thread, args []Value, call *ssa.CallCommon) (Value, bool) {
		st.PanicLbl = e.constStrArg(st, args[0], "PanicLabel")
		return nil, true
	}
	I[nd+"Note"] = func(e *Engine, st *State, th *Thread, args []Value, call *ssa.CallCommon) (Value, bool) {
		st.Notes = append(st.Notes, Note{e.constStrArg(st, args[0], "Note label"), args[1].(*smt.Term)})
		return nil, true
	}
	I[nd+"Replace"] = func(e *Engine, st *State, th *Thread, args []Value, call *ssa.CallCommon) (Value, bool) {
		name := e.constStrArg(st, args[0], "Replace target")
		iv := args[1].(Iface)
		e.hooks[name] = iv.V
		return nil, true
	}
	I[nd+"Quiesce"] = func(e *Engine, st *State, th *Thread, args []Value, call *ssa.CallCommon) (Value, bool) {
		if th.Quiesced {
			th.Quiesced = false
			return nil, true
		}
		th.Status = TBlocked
		th.BlockEpoch = 1 << 60 // only woken by quiescence
		th.BlockWhy = "quiesce"
		th.Ready = func(e *Engine, st *State) bool { return false }
		st.NeedSched = true
		return nil, false
	}
	I[nd+"AllFinished"] = func(e *Engine, st *State, th *Thread, args []Value, call *ssa.CallCommon) (Value, bool) {
		all := true
		for _, t := range st.Threads[1:] {
			if t.Status != TDone {
				all = false
			}
		}
		return e.C.Bool(all), true
	}
	I[nd+"Blocked"] = func(e *Engine, st *State, th *Thread, args []Value, call *ssa.CallCommon) (Value, bool) {
		// number of threads still blocked (after Quiesce)
		n := 0
		for _, t := range st.Threads[1:] {
			if t.Status == TBlocked {
				n++
			}
		}
		return e.i64(uint64(n)), true
	}

	registerSync(e)
	registerLib(e)
	registerTime(e)
	registerStats(e)
	registerStr(e)
}

func (e *Engine) fieldCell(p Ptr, t types.Type, path ...string) Ptr {
	off := p.Off
	cur := t
	for _, name := range path {
		stt := cur.Underlying().(*types.Struct)
		found := false
		for i := 0; i < stt.NumFields(); i++ {
			if stt.Field(i).Name() == name {
				off += e.L.fieldOff(cur, i)
				cur = stt.Field(i).Type()
				found = true
				break
			}
		}
		if !found {
			e.unsupported("field %s not found in %v", name, cur)
		}
	}
	return Ptr{Obj: p.Obj, Off: off}
}

func recvElem(call *ssa.CallCommon, fnRecvType func() types.Type) types.Type { return fnRecvType() }

func (e *Engine) cellTerm(st *State, p Ptr) *smt.Term {
	return e.obj(st, p.Obj).Cells[p.Off].(*smt.Term)
}
func (e *Engine) setCell(st *State, p Ptr, v Value) { e.wobj(st, p.Obj).Cells[p.Off] = v }

func (e *Engine) lookupType(pkg, name string) types.Type {
	for _, p := range e.Prog.AllPackages() {
		if p.Pkg.Path() == pkg {
			if o := p.Pkg.Scope().Lookup(name); o != nil {
				return o.Type()
			}
		}
	}
	e.unsupported("type %s.%s not loaded", pkg, name)
	return nil
}

func registerSync(e *Engine) {
	I := e.intr
	c := e.C
	visible := func(f Intrinsic) Intrinsic {
		return func(e *Engine, st *State, th *Thread, args []Value, call *ssa.CallCommon) (Value, bool) {
			if e.schedPoint(st, th) {
				return nil, false
			}
			return f(e, st, th, args, call)
		}
	}
	// atomic operations are scheduling points only when the harness asks for it
	// (nd.VisibleAtomics): counters that merely commute would multiply the schedules.
	lockVisible := visible
	visible = func(f Intrinsic) Intrinsic {
		return func(e *Engine, st *State, th *Thread, args []Value, call *ssa.CallCommon) (Value, bool) {
			if st.VisibleAtomics && e.schedPoint(st, th) {
				return nil, false
			}
			return f(e, st, th, args, call)
		}
	}
	mutexState := func(st *State, p Ptr) Ptr {
		return e.fieldCell(p, e.lookupType("sync", "Mutex"), "state")
	}
	lock := func(e *Engine, st *State, th *Thread, p Ptr) bool {
		e.nilCheck(st, p, "Mutex.Lock")
		sp := mutexState(st, p)
		s := e.cellTerm(st, sp)
		if !s.IsConst() {
			e.unsupported("symbolic mutex state")
		}
		if s.Val == 0 {
			e.setCell(st, sp, c.BV(1, 32))
			return true
		}
		return false
	}
	I["(*sync.Mutex).Lock"] = lockVisible(func(e *Engine, st *State, th *Thread, args []Value, call *ssa.CallCommon) (Value, bool) {
		if lock(e, st, th, args[0].(Ptr)) {
			return nil, true
		}
		sp := mutexState(st, args[0].(Ptr))
		e.block(st, th, "Mutex.Lock", func(e *Engine, st *State) bool { return e.cellTerm(st, sp).Val == 0 })
		return nil, false
	})
	I["(*sync.Mutex).TryLock"] = lockVisible(func(e *Engine, st *State, th *Thread, args []Value, call *ssa.CallCommon) (Value, bool) {
		return c.Bool(lock(e, st, th, args[0].(Ptr))), true
	})
	I["(*sync.Mutex).Unlock"] = func(e *Engine, st *State, th *Thread, args []Value, call *ssa.CallCommon) (Value, bool) {
		sp := mutexState(st, args[0].(Ptr))
		if e.cellTerm(st, sp).Val == 0 {
			e.goPanic(st, th, Iface{}, "sync: unlock of unlocked mutex")
			return nil, false
		}
		e.setCell(st, sp, c.BV(0, 32))
		e.wake(st)
		return nil, true
	}
	// RWMutex: writer flag in w.state, reader count in readerCount.v
	rw := func() types.Type { return e.lookupType("sync", "RWMutex") }
	I["(*sync.RWMutex).Lock"] = lockVisible(func(e *Engine, st *State, th *Thread, args []Value, call *ssa.CallCommon) (Value, bool) {
		p := args[0].(Ptr)
		e.nilCheck(st, p, "RWMutex.Lock")
		wp := e.fieldCell(p, rw(), "w", "state")
		rp := e.fieldCell(p, rw(), "readerCount", "v")
		if e.cellTerm(st, wp).Val == 0 && e.cellTerm(st, rp).Val == 0 {
			e.setCell(st, wp, c.BV(1, 32))
			return nil, true
		}
		e.block(st, th, "RWMutex.Lock", func(e *Engine, st *State) bool {
			return e.cellTerm(st, wp).Val == 0 && e.cellTerm(st, rp).Val == 0
		})
		return nil, false
	})
	I["(*sync.RWMutex).Unlock"] = func(e *Engine, st *State, th *Thread, args []Value, call *ssa.CallCommon) (Value, bool) {
		wp := e.fieldCell(args[0].(Ptr), rw(), "w", "state")
		if e.cellTerm(st, wp).Val == 0 {
			e.goPanic(st, th, Iface{}, "sync: Unlock of unlocked RWMutex")
			return nil, false
		}
		e.setCell(st, wp, c.BV(0, 32))
		e.wake(st)
		return nil, true
	}
	I["(*sync.RWMutex).RLock"] = lockVisible(func(e *Engine, st *State, th *Thread, args []Value, call *ssa.CallCommon) (Value, bool) {
		p := args[0].(Ptr)
		e.nilCheck(st, p, "RWMutex.RLock")
		wp := e.fieldCell(p, rw(), "w", "state")
		rp := e.fieldCell(p, rw(), "readerCount", "v")
		if e.cellTerm(st, wp).Val == 0 {
			e.setCell(st, rp, c.BV(e.cellTerm(st, rp).Val+1, 32))
			return nil, true
		}
		e.block(st, th, "RWMutex.RLock", func(e *Engine, st *State) bool { return e.cellTerm(st, wp).Val == 0 })
		return nil, false
	})
	I["(*sync.RWMutex).RUnlock"] = func(e *Engine, st *State, th *Thread, args []Value, call *ssa.CallCommon) (Value, bool) {
		rp := e.fieldCell(args[0].(Ptr), rw(), "readerCount", "v")
		n := e.cellTerm(st, rp).Val
		if n == 0 {
			e.goPanic(st, th, Iface{}, "sync: RUnlock of unlocked RWMutex")
			return nil, false
		}
		e.setCell(st, rp, c.BV(n-1, 32))
		e.wake(st)
		return nil, true
	}
	// WaitGroup: counter kept in state.v (64-bit)
	wg := func() types.Type { return e.lookupType("sync", "WaitGroup") }
	I["(*sync.WaitGroup).Add"] = func(e *Engine, st *State, th *Thread, args []Value, call *ssa.CallCommon) (Value, bool) {
		p := e.fieldCell(args[0].(Ptr), wg(), "state", "v")
		n := c.Add(e.cellTerm(st, p), args[1].(*smt.Term))
		e.oblige(st, c.Sge(n, e.i64(0)), "panic", "waitgroup-negative", "sync: negative WaitGroup counter")
		e.setCell(st, p, n)
		e.wake(st)
		return nil, true
	}
	I["(*sync.WaitGroup).Done"] = func(e *Engine, st *State, th *Thread, args []Value, call *ssa.CallCommon) (Value, bool) {
		p := e.fieldCell(args[0].(Ptr), wg(), "state", "v")
		n := c.Sub(e.cellTerm(st, p), e.i64(1))
		e.oblige(st, c.Sge(n, e.i64(0)), "panic", "waitgroup-negative", "sync: negative WaitGroup counter")
		e.setCell(st, p, n)
		e.wake(st)
		return nil, true
	}
	I["(*sync.WaitGroup).Wait"] = lockVisible(func(e *Engine, st *State, th *Thread, args []Value, call *ssa.CallCommon) (Value, bool) {
		p := e.fieldCell(args[0].(Ptr), wg(), "state", "v")
		n := e.cellTerm(st, p)
		if !n.IsConst() {
			e.unsupported("symbolic WaitGroup counter")
		}
		if n.Val == 0 {
			return nil, true
		}
		e.block(st, th, "WaitGroup.Wait", func(e *Engine, st *State) bool {
			n := e.cellTerm(st, p)
			return n.IsConst() && n.Val == 0
		})
		return nil, false
	})
	// Pool: Get returns New() or (nondeterministically) any object previously Put.
	pool := func() types.Type { return e.lookupType("sync", "Pool") }
	poolItems := func(st *State, p Ptr, create bool) *Object {
		lp := e.fieldCell(p, pool(), "local")
		cur := e.obj(st, lp.Obj).Cells[lp.Off].(Ptr)
		if cur.Obj == 0 {
			if !create {
				return nil
			}
			id, o := e.newObj(st, ObjOpaque, nil)
			o.Tag = "pool"
			e.setCell(st, lp, Ptr{Obj: id})
			return o
		}
		return e.wobj(st, cur.Obj)
	}
	I["(*sync.Pool).Put"] = func(e *Engine, st *State, th *Thread, args []Value, call *ssa.CallCommon) (Value, bool) {
		iv := args[1].(Iface)
		if iv.T == nil || !st.PoolReuse {
			return nil, true
		}
		o := poolItems(st, args[0].(Ptr), true)
		o = poolItems(st, args[0].(Ptr), true)
		o.Buf = append(o.Buf, iv)
		return nil, true
	}
	I["(*sync.Pool).Get"] = func(e *Engine, st *State, th *Thread, args []Value, call *ssa.CallCommon) (Value, bool) {
		p := args[0].(Ptr)
		o := poolItems(st, p, false)
		n := 0
		if o != nil {
			n = len(o.Buf)
		}
		d := 0
		if n > 0 {
			d = e.chooseFree(st, n+1, "sync.Pool.Get: fresh or pooled")
		}
		if d > 0 {
			o = poolItems(st, p, false)
			v := o.Buf[d-1]
			o.Buf = append(append([]Value(nil), o.Buf[:d-1]...), o.Buf[d:]...)
			return v, true
		}
		np := e.fieldCell(p, pool(), "New")
		nf := e.obj(st, np.Obj).Cells[np.Off].(Func)
		if nf.Fn == nil {
			return Iface{}, true
		}
		inst, _ := th.top().Block.Instrs[th.top().Idx].(ssa.Value)
		e.pushFrame(st, th, nf.Fn, nil, nf.Bind, inst)
		return nil, false
	}

	// sync/atomic functions on plain cells
	for _, ty := range []struct {
		n string
		w int
	}{{"Int32", 32}, {"Int64", 64}, {"Uint32", 32}, {"Uint64", 64}, {"Uintptr", 64}} {
		w := ty.w
		t := types.Typ[types.Uint64] // only the size (1 cell) matters
		I["sync/atomic.Load"+ty.n] = visible(func(e *Engine, st *State, th *Thread, args []Value, call *ssa.CallCommon) (Value, bool) {
			return e.load(st, args[0].(Ptr), t), true
		})
		I["sync/atomic.Store"+ty.n] = visible(func(e *Engine, st *State, th *Thread, args []Value, call *ssa.CallCommon) (Value, bool) {
			e.store(st, args[0].(Ptr), t, args[1])
			e.wake(st)
			return nil, true
		})
		I["sync/atomic.Add"+ty.n] = visible(func(e *Engine, st *State, th *Thread, args []Value, call *ssa.CallCommon) (Value, bool) {
			p := args[0].(Ptr)
			n := c.Add(e.load(st, p, t).(*smt.Term), args[1].(*smt.Term))
			e.store(st, p, t, n)
			e.wake(st)
			return n, true
		})
		I["sync/atomic.Swap"+ty.n] = visible(func(e *Engine, st *State, th *Thread, args []Value, call *ssa.CallCommon) (Value, bool) {
			p := args[0].(Ptr)
			old := e.load(st, p, t)
			e.store(st, p, t, args[1])
			e.wake(st)
			return old, true
		})
		I["sync/atomic.CompareAndSwap"+ty.n] = visible(func(e *Engine, st *State, th *Thread, args []Value, call *ssa.CallCommon) (Value, bool) {
			p := args[0].(Ptr)
			old := e.load(st, p, t).(*smt.Term)
			eq := c.Eq(old, args[1].(*smt.Term))
			e.store(st, p, t, c.Ite(eq, args[2].(*smt.Term), old))
			e.wake(st)
			return eq, true
		})
		_ = w
	}
	// typed atomics (atomic.Int32 etc.): struct{_ noCopy; v T} — value cell found by name
	for _, ty := range []string{"Int32", "Int64", "Uint32", "Uint64", "Uintptr", "Bool"} {
		ty := ty
		t := types.Typ[types.Uint64]
		vp := func(p Ptr) Ptr { return e.fieldCell(p, e.lookupType("sync/atomic", ty), "v") }
		I["(*sync/atomic."+ty+").Load"] = visible(func(e *Engine, st *State, th *Thread, args []Value, call *ssa.CallCommon) (Value, bool) {
			v := e.load(st, vp(args[0].(Ptr)), t).(*smt.Term)
			if ty == "Bool" {
				return c.Ne(v, c.BV(0, 32)), true
			}
			return v, true
		})
		I["(*sync/atomic."+ty+").Store"] = visible(func(e *Engine, st *State, th *Thread, args []Value, call *ssa.CallCommon) (Value, bool) {
			v := args[1].(*smt.Term)
			if ty == "Bool" {
				v = c.Ite(v, c.BV(1, 32), c.BV(0, 32))
			}
			e.store(st, vp(args[0].(Ptr)), t, v)
			e.wake(st)
			return nil, true
		})
		if ty == "Bool" {
			continue
		}
		I["(*sync/atomic."+ty+").Add"] = visible(func(e *Engine, st *State, th *Thread, args []Value, call *ssa.CallCommon) (Value, bool) {
			p := vp(args[0].(Ptr))
			n := c.Add(e.load(st, p, t).(*smt.Term), args[1].(*smt.Term))
			e.store(st, p, t, n)
			e.wake(st)
			return n, true
		})
		I["(*sync/atomic."+ty+").Swap"] = visible(func(e *Engine, st *State, th *Thread, args []Value, call *ssa.CallCommon) (Value, bool) {
			p := vp(args[0].(Ptr))
			old := e.load(st, p, t)
			e.store(st, p, t, args[1])
			e.wake(st)
			return old, true
		})
		I["(*sync/atomic."+ty+").CompareAndSwap"] = visible(func(e *Engine, st *State, th *Thread, args []Value, call *ssa.CallCommon) (Value, bool) {
			p := vp(args[0].(Ptr))
			old := e.load(st, p, t).(*smt.Term)
			eq := c.Eq(old, args[1].(*smt.Term))
			e.store(st, p, t, c.Ite(eq, args[2].(*smt.Term), old))
			e.wake(st)
			return eq, true
		})
	}
	// untyped pointer atomics and atomic.Pointer[T]
	anyT := types.Typ[types.Uintptr]
	I["sync/atomic.LoadPointer"] = visible(func(e *Engine, st *State, th *Thread, args []Value, call *ssa.CallCommon) (Value, bool) {
		return e.load(st, args[0].(Ptr), anyT), true
	})
	I["sync/atomic.StorePointer"] = visible(func(e *Engine, st *State, th *Thread, args []Value, call *ssa.CallCommon) (Value, bool) {
		e.store(st, args[0].(Ptr), anyT, args[1])
		e.wake(st)
		return nil, true
	})
	I["sync/atomic.SwapPointer"] = visible(func(e *Engine, st *State, th *Thread, args []Value, call *ssa.CallCommon) (Value, bool) {
		old := e.load(st, args[0].(Ptr), anyT)
		e.store(st, args[0].(Ptr), anyT, args[1])
		e.wake(st)
		return old, true
	})
	I["sync/atomic.CompareAndSwapPointer"] = visible(func(e *Engine, st *State, th *Thread, args []Value, call *ssa.CallCommon) (Value, bool) {
		p := args[0].(Ptr)
		old := e.load(st, p, anyT).(Ptr)
		eq := e.ptrEq(old, args[1].(Ptr))
		if !eq.IsConst() {
			e.unsupported("CompareAndSwapPointer with symbolic pointer equality")
		}
		if eq.IsTrue() {
			e.store(st, p, anyT, args[2])
			e.wake(st)
		}
		return eq, true
	})
	ptrCell := func(p Ptr) Ptr {
		// atomic.Pointer[T] is struct{_ [0]*T; _ noCopy; v unsafe.Pointer}: the only cell is v
		return Ptr{Obj: p.Obj, Off: p.Off}
	}
	I["(*sync/atomic.Pointer[T]).Load"] = visible(func(e *Engine, st *State, th *Thread, args []Value, call *ssa.CallCommon) (Value, bool) {
		return e.load(st, ptrCell(args[0].(Ptr)), anyT), true
	})
	I["(*sync/atomic.Pointer[T]).Store"] = visible(func(e *Engine, st *State, th *Thread, args []Value, call *ssa.CallCommon) (Value, bool) {
		e.store(st, ptrCell(args[0].(Ptr)), anyT, args[1])
		e.wake(st)
		return nil, true
	})
	I["(*sync/atomic.Pointer[T]).Swap"] = visible(func(e *Engine, st *State, th *Thread, args []Value, call *ssa.CallCommon) (Value, bool) {
		old := e.load(st, ptrCell(args[0].(Ptr)), anyT)
		e.store(st, ptrCell(args[0].(Ptr)), anyT, args[1])
		e.wake(st)
		return old, true
	})
	I["(*sync/atomic.Pointer[T]).CompareAndSwap"] = visible(func(e *Engine, st *State, th *Thread, args []Value, call *ssa.CallCommon) (Value, bool) {
		p := ptrCell(args[0].(Ptr))
		old := e.load(st, p, anyT).(Ptr)
		eq := e.ptrEq(old, args[1].(Ptr))
		if !eq.IsConst() {
			e.unsupported("atomic.Pointer CAS with symbolic pointer equality")
		}
		if eq.IsTrue() {
			e.store(st, p, anyT, args[2])
			e.wake(st)
		}
		return eq, true
	})
	// sync.Map: backed by an engine map kept in the `dirty` field (keys and values are interface values)
	smap := func() types.Type { return e.lookupType("sync", "Map") }
	anyIface := types.NewInterfaceType(nil, nil)
	backing := func(st *State, p Ptr) MapV {
		e.nilCheck(st, p, "sync.Map")
		dp := e.fieldCell(p, smap(), "dirty")
		m, _ := e.obj(st, dp.Obj).Cells[dp.Off].(MapV)
		if m.Obj == 0 {
			id, _ := e.newObj(st, ObjMap, nil)
			m = MapV{id}
			e.setCell(st, dp, m)
		}
		return m
	}
	I["(*sync.Map).Load"] = visible(func(e *Engine, st *State, th *Thread, args []Value, call *ssa.CallCommon) (Value, bool) {
		m := backing(st, args[0].(Ptr))
		i := e.mapFind(st, m, args[1], anyIface)
		if i < 0 {
			return Tuple{[]Value{Iface{}, c.False}}, true
		}
		return Tuple{[]Value{e.obj(st, m.Obj).Ent[i].V, c.True}}, true
	})
	I["(*sync.Map).Store"] = visible(func(e *Engine, st *State, th *Thread, args []Value, call *ssa.CallCommon) (Value, bool) {
		e.mapUpdate(st, backing(st, args[0].(Ptr)), args[1], args[2], anyIface)
		return nil, true
	})
	I["(*sync.Map).LoadOrStore"] = visible(func(e *Engine, st *State, th *Thread, args []Value, call *ssa.CallCommon) (Value, bool) {
		m := backing(st, args[0].(Ptr))
		i := e.mapFind(st, m, args[1], anyIface)
		if i >= 0 {
			return Tuple{[]Value{e.obj(st, m.Obj).Ent[i].V, c.True}}, true
		}
		e.mapUpdate(st, m, args[1], args[2], anyIface)
		return Tuple{[]Value{args[2], c.False}}, true
	})
	I["(*sync.Map).Delete"] = visible(func(e *Engine, st *State, th *Thread, args []Value, call *ssa.CallCommon) (Value, bool) {
		e.mapDelete(st, backing(st, args[0].(Ptr)), args[1], anyIface)
		return nil, true
	})
	I["(*sync.Map).LoadAndDelete"] = visible(func(e *Engine, st *State, th *Thread, args []Value, call *ssa.CallCommon) (Value, bool) {
		m := backing(st, args[0].(Ptr))
		i := e.mapFind(st, m, args[1], anyIface)
		if i < 0 {
			return Tuple{[]Value{Iface{}, c.False}}, true
		}
		v := e.obj(st, m.Obj).Ent[i].V
		e.mapDelete(st, m, args[1], anyIface)
		return Tuple{[]Value{v, c.True}}, true
	})
	// atomic.Value: v any stored in the single cell
	I["(*sync/atomic.Value).Load"] = visible(func(e *Engine, st *State, th *Thread, args []Value, call *ssa.CallCommon) (Value, bool) {
		p := args[0].(Ptr)
		return e.obj(st, p.Obj).Cells[p.Off], true
	})
	I["(*sync/atomic.Value).Store"] = visible(func(e *Engine, st *State, th *Thread, args []Value, call *ssa.CallCommon) (Value, bool) {
		p := args[0].(Ptr)
		e.setCell(st, p, args[1])
		e.wake(st)
		return nil, true
	})
}

// registerLib: standard-library functions without Go bodies, and summaries.
func registerLib(e *Engine) {
	I := e.intr
	c := e.C
	u8 := types.Typ[types.Uint8]
	// IndexByte over a byte view: first index with b[i]==ch or -1
	indexByte := func(e *Engine, st *State, get func(i *smt.Term) *smt.Term, ln *smt.Term, maxN int, ch *smt.Term) *smt.Term {
		res := c.BV(^uint64(0), 64)
		for i := maxN - 1; i >= 0; i-- {
			ii := e.i64(uint64(i))
			inr := c.Ult(ii, ln)
			if inr.IsFalse() {
				continue
			}
			res = c.Ite(c.And(inr, c.Eq(get(ii), ch)), ii, res)
		}
		return res
	}
	sliceMax := func(s Slice) int {
		if s.Len.IsConst() {
			return int(s.Len.Val)
		}
		return s.ArrLen
	}
	ibBytes := func(e *Engine, st *State, th *Thread, args []Value, call *ssa.CallCommon) (Value, bool) {
		s := args[0].(Slice)
		if s.Obj == 0 {
			return c.BV(^uint64(0), 64), true
		}
		return indexByte(e, st, func(i *smt.Term) *smt.Term { return e.readElemSafe(st, s, i) }, s.Len, sliceMax(s), args[1].(*smt.Term)), true
	}
	ibString := func(e *Engine, st *State, th *Thread, args []Value, call *ssa.CallCommon) (Value, bool) {
		s := args[0].(Str)
		n, _ := e.strMaxLen(s, s)
		return indexByte(e, st, func(i *smt.Term) *smt.Term { return e.strByteSafe(st, s, i) }, e.strLen(s), n, args[1].(*smt.Term)), true
	}
	I["internal/bytealg.IndexByte"] = ibBytes
	I["internal/bytealg.IndexByteString"] = ibString
	I["bytes.IndexByte"] = ibBytes
	I["strings.IndexByte"] = ibString
	I["internal/stringslite.IndexByte"] = ibString
	I["internal/bytealg.Equal"] = func(e *Engine, st *State, th *Thread, args []Value, call *ssa.CallCommon) (Value, bool) {
		return e.strEq(st, e.sliceAsStr(args[0].(Slice)), e.sliceAsStr(args[1].(Slice))), true
	}
	I["bytes.Equal"] = I["internal/bytealg.Equal"]
	I["internal/bytealg.Compare"] = func(e *Engine, st *State, th *Thread, args []Value, call *ssa.CallCommon) (Value, bool) {
		a, b := e.sliceAsStr(args[0].(Slice)), e.sliceAsStr(args[1].(Slice))
		eq := e.strEq(st, a, b)
		lt := e.strLess(st, a, b)
		return c.Ite(eq, e.i64(0), c.Ite(lt, c.BV(^uint64(0), 64), e.i64(1))), true
	}
	I["bytes.Compare"] = I["internal/bytealg.Compare"]
	I["internal/bytealg.CountString"] = func(e *Engine, st *State, th *Thread, args []Value, call *ssa.CallCommon) (Value, bool) {
		s := args[0].(Str)
		n, _ := e.strMaxLen(s, s)
		ln := e.strLen(s)
		res := e.i64(0)
		for i := 0; i < n; i++ {
			ii := e.i64(uint64(i))
			hit := c.And(c.Ult(ii, ln), c.Eq(e.strByteSafe(st, s, ii), args[1].(*smt.Term)))
			res = c.Add(res, c.Ite(hit, e.i64(1), e.i64(0)))
		}
		return res, true
	}
	I["internal/bytealg.Count"] = func(e *Engine, st *State, th *Thread, args []Value, call *ssa.CallCommon) (Value, bool) {
		s := args[0].(Slice)
		n := sliceMax(s)
		res := e.i64(0)
		for i := 0; i < n; i++ {
			ii := e.i64(uint64(i))
			hit := c.And(c.Ult(ii, s.Len), c.Eq(e.readElemSafe(st, s, ii), args[1].(*smt.Term)))
			res = c.Add(res, c.Ite(hit, e.i64(1), e.i64(0)))
		}
		return res, true
	}
	// runtime / misc
	for _, n := range []string{"runtime.KeepAlive", "runtime.Gosched", "runtime.GC", "sync.runtime_registerPoolCleanup",
		"internal/race.Acquire", "internal/race.Release", "internal/race.ReleaseMerge", "internal/race.Disable", "internal/race.Enable",
		"internal/race.Read", "internal/race.Write", "internal/race.ReadRange", "internal/race.WriteRange", "runtime.SetFinalizer"} {
		I[n] = func(e *Engine, st *State, th *Thread, args []Value, call *ssa.CallCommon) (Value, bool) { return nil, true }
	}
	// dialing: refused unless a harness replaces it (nd.Replace) with its own double
	dialFail := func(e *Engine, st *State, th *Thread, args []Value, call *ssa.CallCommon) (Value, bool) {
		et := e.lookupType("errors", "errorString")
		p := e.allocMem(st, et)
		e.setCell(st, p, Str{IsConst: true, S: "dial: connection refused (vf stub)"})
		return Tuple{[]Value{Iface{}, Iface{T: types.NewPointer(et), V: p}}}, true
	}
	I["net.DialTimeout"] = dialFail
	I["net.Dial"] = dialFail
	// generated validation of an address parses the IP with net/netip (unsafe); addresses in the
	// harnesses are well-formed literals
	I["(*github.com/samaritan-proxy/samaritan/pb/common.Address).Validate"] = func(e *Engine, st *State, th *Thread, args []Value, call *ssa.CallCommon) (Value, bool) {
		return Iface{}, true
	}
	I["os.Getpid"] = func(e *Engine, st *State, th *Thread, args []Value, call *ssa.CallCommon) (Value, bool) {
		return e.i64(4242), true
	}
	I["syscall.Getpid"] = I["os.Getpid"]
	I["os.Getegid"] = I["os.Getpid"]
	I["os.Getuid"] = I["os.Getpid"]
	I["math.Float64bits"] = func(e *Engine, st *State, th *Thread, args []Value, call *ssa.CallCommon) (Value, bool) {
		e.unsupported("math.Float64bits")
		return nil, true
	}
	_ = u8
	_ = strings.HasPrefix
}

func (e *Engine) sliceAsStr(s Slice) Str {
	if s.Obj == 0 {
		return Str{IsConst: true}
	}
	return Str{Sl: s}
}

// readElemSafe reads byte i of a byte slice, 0 beyond the backing array.
func (e *Engine) readElemSafe(st *State, s Slice, i *smt.Term) *smt.Term {
	return e.strByteSafe(st, Str{Sl: s}, i)
}
