//vf:pkg proc/redis
package redis

import (
	"io"
	"net"
	"time"

	nd "github.com/samaritan-proxy/samaritan/vfnd"
)

// vfDownConn is a downstream client connection double: it delivers the pipelined request bytes
// (split into two reads at a symbolic position) and then blocks until closed; writes are recorded.
type vfDownConn struct {
	data     []byte
	pos      int
	split    int
	written  []byte
	closed   chan struct{}
	isClosed bool
}

func (c *vfDownConn) Read(p []byte) (int, error) {
	if c.isClosed {
		return 0, io.EOF
	}
	if c.pos < len(c.data) {
		end := len(c.data)
		if c.pos < c.split {
			end = c.split
		}
		n := copy(p, c.data[c.pos:end])
		c.pos += n
		return n, nil
	}
	<-c.closed
	return 0, io.EOF
}
func (c *vfDownConn) Write(p []byte) (int, error) {
	c.written = append(c.written, p...)
	return len(p), nil
}
func (c *vfDownConn) Close() error {
	if !c.isClosed {
		c.isClosed = true
		close(c.closed)
	}
	return nil
}
func (c *vfDownConn) LocalAddr() net.Addr                { return &net.TCPAddr{Port: 1} }
func (c *vfDownConn) RemoteAddr() net.Addr               { return &net.TCPAddr{Port: 2} }
func (c *vfDownConn) SetDeadline(t time.Time) error      { return nil }
func (c *vfDownConn) SetReadDeadline(t time.Time) error  { return nil }
func (c *vfDownConn) SetWriteDeadline(t time.Time) error { return nil }

// VfC01_SessionFIFO: on one downstream connection the replies are written in the order the
// requests were read, one per request, whatever order and timing the backends answer in and
// however the request bytes were fragmented.
func VfC01_SessionFIFO() {
	nd.ConcreteClock(true)
	a, b := "10.0.0.1:7000", "10.0.0.2:7000"
	p, clients := vfNewProc(nil, a, b)
	p.u.slots[vfSlotOf2("k1")] = &instance{Addr: a}
	p.u.slots[vfSlotOf2("k2")] = &instance{Addr: b}
	reqBytes := []byte("*2\r\n$3\r\nget\r\n$2\r\nk1\r\n*2\r\n$3\r\nget\r\n$2\r\nk2\r\nPING\r\n")
	conn := &vfDownConn{data: reqBytes, split: nd.IntRange("split", 1, len(reqBytes)), closed: make(chan struct{})}
	conn.split = nd.Concrete(conn.split)
	s := newSession(p, conn)
	served := false
	go func() { s.Serve(); served = true }()
	// the backends answer in an arbitrary order, at arbitrary times
	first := nd.Concrete(nd.Choice("first-answer", 2))
	go func() {
		order := []string{a, b}
		if first == 1 {
			order = []string{b, a}
		}
		replies := map[string]string{a: "v1", b: "v2"}
		for _, addr := range order {
			r := <-clients[addr].pendingReqs
			r.SetResponse(newBulkString(replies[addr]))
		}
	}()
	nd.PanicLabel("session")
	nd.Quiesce()
	want := "$2\r\nv1\r\n$2\r\nv2\r\n+PONG\r\n"
	nd.Assert(string(conn.written) == want, "replies are written in request order, exactly one per request, whatever the completion order")
	nd.Cover("all-answered")
	conn.Close()
	nd.Quiesce()
	nd.Assert(served, "the session ends when the client goes away")
}

func vfSlotOf2(key string) int { return int(crc16(hashtag([]byte(key)))) & (slotNum - 1) }

// vfOrderedBackend answers the k-th request it receives with the integer k and remembers the id
// byte of each request in arrival order.
type vfOrderedBackend struct {
	vfBackend
	buf   []byte
	order []byte
}

func (b *vfOrderedBackend) Write(p []byte) (int, error) {
	b.buf = append(b.buf, p...)
	for len(b.buf) >= vfReqLen {
		b.order = append(b.order, b.buf[11])
		b.buf = b.buf[vfReqLen:]
	}
	return b.vfBackend.Write(p)
}

func (b *vfOrderedBackend) Read(p []byte) (int, error) {
	for {
		if b.isClosed {
			return 0, io.EOF
		}
		if b.replied < b.got/vfReqLen {
			k := b.replied
			b.replied++
			return copy(p, []byte{':', byte('0' + k), '\r', '\n'}), nil
		}
		select {
		case <-b.wake:
		case <-b.closed:
		}
	}
}

// VfC01_BackendPairing: on one backend connection the k-th request written gets the k-th reply,
// for every interleaving of concurrent senders with the connection's writer and reader.
func VfC01_BackendPairing() {
	nd.ConcreteClock(true)
	be := &vfOrderedBackend{vfBackend: *vfNewBackend()}
	c := vfNewClient(be, 2)
	ids := []byte{'a', 'b', 'c'}
	n := nd.Param("requests", 2)
	reqs := make([]*simpleRequest, n)
	for i := range reqs {
		reqs[i] = newSimpleRequest(newStringArray("pin" + string(ids[i:i+1])))
	}
	go c.Start()
	for i := range reqs {
		i := i
		go func() { c.Send(reqs[i]) }()
	}
	nd.PanicLabel("pairing")
	nd.Quiesce()
	for i, r := range reqs {
		nd.Assert(vfDone(r.done), "each request is answered")
		if !vfDone(r.done) {
			continue
		}
		// position of this request in the order the backend received them
		pos := -1
		for k, id := range be.order {
			if id == ids[i] {
				pos = k
			}
		}
		nd.Assert(pos >= 0 && r.Response().Type == Integer && r.Response().Int == int64(pos), "the request written k-th receives the k-th reply")
	}
	nd.Cover("paired")
	c.Stop()
}

// VfC01_SplitConcurrent: the per-key answers of one split request arrive on two backend
// connections at the same time (two reader goroutines): the client's request is still completed
// exactly once (a second completion is a close-of-closed-channel crash).
func VfC01_SplitConcurrent() {
	nd.ConcreteClock(true)
	nd.VisibleAtomics(true)
	a, b := "10.0.0.1:7000", "10.0.0.2:7000"
	p, clients := vfNewProc(nil, a, b)
	p.u.slots[vfSlotOf2("k1")] = &instance{Addr: a}
	p.u.slots[vfSlotOf2("k2")] = &instance{Addr: b}
	cmds := []string{"del", "mget", "mset"}
	cmd := cmds[nd.Concrete(nd.Choice("cmd", len(cmds)))]
	var raw *rawRequest
	if cmd == "mset" {
		raw = newRawRequest(newStringArray(cmd, "k1", "1", "k2", "2"))
	} else {
		raw = newRawRequest(newStringArray(cmd, "k1", "k2"))
	}
	p.handleRequest(raw)
	ra, rb := vfTake(clients[a]), vfTake(clients[b])
	if ra == nil || rb == nil {
		nd.Assert(false, "both per-key requests were forwarded")
		return
	}
	nd.PanicLabel("concurrent-completion")
	if nd.Param("plain", 1) == 1 {
		nd.WatchAll(true) // the two completions may interleave at every load and store of shared memory
	}
	go func() { ra.SetResponse(newInteger(1)) }()
	go func() { rb.SetResponse(newInteger(2)) }()
	nd.Quiesce()
	nd.WatchAll(false)
	nd.Assert(vfDone(raw.done), "the client's request is completed (exactly once) after both answers")
	if !vfDone(raw.done) {
		return
	}
	resp := raw.Response()
	switch cmd {
	case "del":
		nd.Assert(resp.Type == Integer && resp.Int == 3, "the combined reply is the sum of the per-key answers, however the two completions interleave")
	case "mget":
		nd.Assert(resp.Type == Array && len(resp.Array) == 2 && resp.Array[0].Int == 1 && resp.Array[1].Int == 2, "the combined reply holds the per-key answers by position, however the two completions interleave")
	case "mset":
		nd.Assert(resp.Type == SimpleString, "MSET is answered with a status")
	}
	nd.Cover("both-answered")
}
