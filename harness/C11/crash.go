//vf:pkg proc/redis
package redis

import (
	nd "github.com/samaritan-proxy/samaritan/vfnd"
)

// VfC11_ClientBytes: arbitrary bytes from a downstream client, in arbitrary chunks: decode ->
// request -> handleRequest never panics; a request is answered or forwarded, a decode error is sticky.
func VfC11_ClientBytes() {
	max := nd.Param("bytes", 8)
	l := nd.Concrete(nd.IntRange("len", 0, max))
	data := nd.Bytes("d", l)
	p, clients := vfNewProc(nil, "10.0.0.1:7000")
	dec := newDecoder(&vfChunkReader{data: data, sym: nd.Param("splits", 1)}, 32)
	nd.PanicLabel("client-bytes")
	for k := 0; k < 3; k++ {
		v, err := dec.Decode()
		if err != nil {
			_, err2 := dec.Decode()
			nd.Assert(err2 == err, "a decode error is sticky (the connection is then closed)")
			nd.Cover("decode-error")
			return
		}
		raw := newRawRequest(v)
		p.handleRequest(raw)
		nd.Assert(vfDone(raw.done) || vfForwarded(clients) > 0, "a decoded request is answered or forwarded")
		nd.Cover("request-handled")
	}
}

// VfC11_InlineBytes: an inline command line (what a telnet user or a port scanner sends: anything
// that does not start with a RESP type byte) of arbitrary bytes, properly terminated: however it is
// tokenised - blanks, quotes, escapes, whatever the decoder understands - it never crashes the
// proxy; the request is answered or forwarded, or the connection gets a decode error.
func VfC11_InlineBytes() {
	l := nd.Concrete(nd.IntRange("len", 1, nd.Param("maxlen", 6)))
	line := nd.Bytes("d", l)
	t := RespType(line[0])
	nd.Assume(t != Integer && t != SimpleString && t != Error && t != BulkString && t != Array)
	for i := range line {
		nd.Assume(line[i] != LF)
	}
	data := append(append([]byte{}, line...), CR, LF)
	p, clients := vfNewProc(nil, "10.0.0.1:7000")
	dec := newDecoder(&vfChunkReader{data: data}, 32)
	nd.PanicLabel("inline-bytes")
	v, err := dec.Decode()
	if err != nil {
		nd.Cover("decode-error")
		return
	}
	raw := newRawRequest(v)
	p.handleRequest(raw)
	nd.Assert(vfDone(raw.done) || vfForwarded(clients) > 0, "a decoded request is answered or forwarded")
	nd.Cover("request-handled")
}

// VfC11_Nesting: array nesting deeper than any legitimate message is rejected instead of being
// followed recursively (stack use must not be chosen by the sender).
func VfC11_Nesting() {
	depth := nd.Param("depth", 300)
	var data []byte
	for i := 0; i < depth; i++ {
		data = append(data, '*', '1', CR, LF)
	}
	data = append(data, ':', '1', CR, LF)
	dec := newDecoder(&vfChunkReader{data: data}, 4096)
	nd.PanicLabel("nesting")
	_, err := dec.Decode()
	nd.Class("unbounded-recursion", true)
	nd.Assert(err != nil, "array nesting beyond a fixed limit is rejected, not recursed into")
}

// VfC11_StackBound: the decoder's stack use is bounded by the protocol's declared limits, not by
// how much the peer sends: a long run of message fragments of one kind (empty inline lines, blank
// lines, null arrays, empty arrays, null bulks, nested arrays) before a message never makes the
// call stack at the decoder's reads deeper than a fixed multiple of the nesting limit.
func VfC11_StackBound() {
	fillers := []string{"\r\n", " \r\n", "\n", "*-1\r\n", "*0\r\n", "$-1\r\n", "*1\r\n", "+\r\n", "*2\r\n:1\r\n"}
	f := fillers[nd.Concrete(nd.Choice("filler", len(fillers)))]
	n := nd.Param("repeat", 200)
	var data []byte
	for i := 0; i < n; i++ {
		data = append(data, f...)
	}
	data = append(data, ':', '1', CR, LF)
	rd := &vfChunkReader{data: data, fixed: 3}
	dec := newDecoder(rd, 32)
	nd.PanicLabel("stack-bound")
	for k := 0; k < n+1; k++ {
		if _, err := dec.Decode(); err != nil {
			nd.Cover("rejected")
			break
		}
	}
	nd.Assert(rd.maxDepth-rd.minDepth <= 6*(maxArrayDepth+2), "the decoder's call stack stays within a fixed multiple of the nesting limit however long the input is")
	nd.Cover("decoded-to-the-end")
}

// VfC11_Redirection: an error reply whose first word is MOVED/ASK (any case) followed by arbitrary
// bytes never crashes the backend reader; the request is answered with an error or re-sent.
func VfC11_Redirection() {
	u, clients := vfNewUpstream(nil, "10.0.0.1:7000")
	c := clients["10.0.0.1:7000"]
	c.onRedirection = u.handleRedirection
	c.onClusterDown = u.handleClusterDown
	// the last spellings fold to ASK / MOVED-like words under Unicode simple folding (U+017F long s,
	// U+212A Kelvin sign) although they are not ASCII
	words := []string{"MOVED", "moved", "ASK", "aSk", "CLUSTERDOWN", "a\u017fk", "AS\u212a", "clu\u017fterdown"}
	w := words[nd.Concrete(nd.Choice("word", len(words)))]
	tl := nd.Concrete(nd.IntRange("taillen", 0, nd.Param("tail", 6)))
	text := []byte(w)
	if nd.Bool("space-after-word") {
		text = append(text, ' ') // the word boundary is concrete: the classification sees exactly w
	}
	text = append(text, nd.Bytes("t", tl)...)
	req := newSimpleRequest(newArray(*newBulkString("get"), *newBulkString("k")))
	nd.PanicLabel("redirection")
	nd.Class("short-redirect", true)
	nonASCII := false
	for i := 0; i < len(w); i++ {
		if w[i] >= 0x80 {
			nonASCII = true
		}
	}
	nd.Class("non-ascii-fold", nonASCII)
	c.handleResp(req, &RespValue{Type: Error, Text: text})
	nd.Assert(vfDone(req.done) || vfForwarded(clients) > 0, "the request is answered or re-sent")
	nd.Cover("handled")
}

var vfSlotTokens = []string{"0-16383", "5", "16383", "16384", "0-16384", "0-40000", "-1", "5-", "-", "1-2-3", "[5->-abc]", "[5-<-abc]", "abc", "99999999999999999999", "7-3", ""}

// VfC11_ClusterNodes: a CLUSTER NODES reply with arbitrary role / master-id / slot fields never
// crashes or wedges the refresh; slot lists stay within the slot space.
func VfC11_ClusterNodes() {
	mk := func(id, addr, master string, slots []string) string {
		s := id + " " + addr + " flags " + master + " 0 0 1 connected"
		for _, t := range slots {
			s += " " + t
		}
		return s
	}
	masters := []string{"-", "idA", "idB", "unknown"}
	addrs := []string{"10.0.0.1:7000@17000", "10.0.0.2:7000", "nocolon", "a:b:c", ""}
	// line 1: adversarial address, role and 0..ntok slot tokens; line 2: any role incl. a replica of
	// line 1's node or of an unknown node
	var toks []string
	nt := nd.Concrete(nd.IntRange("ntok", 0, nd.Param("ntok", 1)))
	for t := 0; t < nt; t++ {
		toks = append(toks, vfSlotTokens[nd.Concrete(nd.Choice("tok", len(vfSlotTokens)))])
	}
	m1 := []string{"-", "unknown"}[nd.Concrete(nd.Choice("master1", 2))]
	lines := mk("idA", addrs[nd.Concrete(nd.Choice("addr", len(addrs)))], m1, toks) + "\n"
	var toks2 []string
	if nd.Bool("tok2") {
		toks2 = append(toks2, "5")
	}
	lines += mk("idB", "10.0.0.2:7000@17000", masters[nd.Concrete(nd.Choice("master2", len(masters)))], toks2) + "\n"
	nd.PanicLabel("cluster-nodes")
	nd.Class("replica-of-unknown-master", m1 == "unknown" || masters[0] == "")
	insts, err := parseClusterNodes(lines)
	if err == nil {
		nd.Cover("accepted")
		for _, inst := range insts {
			nd.Assert(len(inst.Slots) <= slotNum, "a node's slot list is bounded by the slot space, not by the numbers in the reply")
		}
	} else {
		nd.Cover("rejected")
	}
}

// VfC11_SlotsRefresh: doSlotsRefresh with an arbitrary reply value to CLUSTER NODES: no panic, the
// slot table is only written inside 0..16383.
func VfC11_SlotsRefresh() {
	u, clients := vfNewUpstream(nil, "10.0.0.1:7000")
	kinds := nd.Concrete(nd.IntRange("kind", 0, 4))
	var reply *RespValue
	switch kinds {
	case 0:
		reply = newError("ERR something")
	case 1:
		reply = newInteger(5)
	case 2:
		reply = newArray()
	case 3:
		reply = newNullBulkString()
	case 4:
		tok := vfSlotTokens[nd.Concrete(nd.Choice("tok", len(vfSlotTokens)))]
		reply = newBulkString("idA 10.0.0.1:7000@17000 master - 0 0 1 connected " + tok + "\n")
	}
	nd.PanicLabel("slots-refresh")
	done := make(chan error, 1)
	go func() { done <- u.doSlotsRefresh() }()
	nd.Quiesce()
	req := vfTake(clients["10.0.0.1:7000"])
	nd.Assert(req != nil, "the refresh asks a seed host for CLUSTER NODES")
	if req == nil {
		return
	}
	req.SetResponse(reply)
	nd.Quiesce()
	select {
	case <-done:
		nd.Cover("refresh-returned")
	default:
		nd.Assert(false, "the refresh returns once the reply arrived")
	}
}

// VfC11_ScanReply: an arbitrary backend reply to a forwarded SCAN never crashes the reader.
func VfC11_ScanReply() {
	u, clients := vfNewUpstream(nil, "10.0.0.1:7000")
	raw := newRawRequest(newArray(*newBulkString("scan"), *newBulkString("0")))
	handleScan(u, raw)
	sreq := vfTake(clients["10.0.0.1:7000"])
	if sreq == nil {
		return
	}
	var reply *RespValue
	switch nd.Concrete(nd.IntRange("kind", 0, 6)) {
	case 0:
		reply = newArray() // *0
	case 1:
		reply = &RespValue{Type: Array} // *-1
	case 2:
		reply = newArray(*newBulkBytes(nd.Bytes("c", 2)))
	case 3:
		reply = newArray(*newInteger(3), *newArray())
	case 4:
		reply = newArray(*newNullBulkString(), *newArray())
	case 5:
		reply = newError("ERR x")
	case 6:
		reply = newArray(*newBulkBytes(nd.Bytes("c", 3)), *newArray(*newBulkString("k")))
	}
	nd.PanicLabel("scan-reply")
	nd.Class("empty-scan-array", true)
	sreq.SetResponse(reply)
	nd.Assert(vfDone(raw.done), "the client's SCAN is answered whatever the backend sent")
}
