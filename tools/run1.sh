#!/bin/bash
# usage: run1.sh <pkg> <fn> <files> [timeout] [extra args...]  -- runs one harness, prints a summary
pkg=$1; fn=$2; files=$3; to=${4:-300}; shift 4
out=/tmp/o_$fn.json; rm -f $out
/usr/bin/time -f "$fn wall=%es" timeout $to /verif/bin/vf run -pkg $pkg -fn $fn -files $files -o $out "$@" 2>&1 | tail -3
python3 - $out <<'PY'
import json,sys
try:
    d=json.load(open(sys.argv[1]))
    print(' paths',d['Paths'],d['PathsEnded'],'q(sat/unsat/unk)',d['NSat'],d['NUnsat'],d['NUnknown'],'solver_s',round(d['SolverTime']/1e9,1),'covers',d['Covers'])
    if d['Unsupported']: print(' UNSUPPORTED',d['Unsupported'][:3])
    if d['Unwinds']: print(' UNWIND',d['Unwinds'][:3])
    if d.get('error'): print(' ERROR',d['error'][:2000])
    seen=set()
    for f in (d.get('findings') or []):
        k=(f['label'],f['pos'])
        if k in seen: continue
        seen.add(k); print(' FINDING',f['kind'],f['label'],'|',f['msg'][:100],'@',f['pos'],f.get('class',''), {k:v for k,v in list(f['nd'].items())[:12]})
except Exception as e: print(' no output',e)
PY
