//vf:pkg proc/redis
package redis

import (
	"errors"
	"net"
	"sync"
	"time"

	"github.com/samaritan-proxy/samaritan/host"

	nd "github.com/samaritan-proxy/samaritan/vfnd"
)

func hostNew(addr string) *host.Host { return host.New(addr) }

// vfServer is a backend that can be made unreachable, restarted and made to drop its
// connections. Under the executor net.DialTimeout is replaced by vfServer.dial, which hands out
// vfBackend doubles (see C02/client.go); natively it is a real TCP listener on the loopback
// interface answering +OK to every request, so counterexamples replay against real sockets.
type vfServer struct {
	addr  string
	up    bool
	conns []*vfBackend
	movedAt   int    // reply index (per connection) that is a MOVED redirection (-1: none)
	movedTo   string // to this node
	resetNext bool // the next accepted connection is reset right away (the node crashes while accepting)
	// native
	mu   sync.Mutex
	ln   net.Listener
	real []net.Conn
}

func vfNewServer() *vfServer {
	s := &vfServer{addr: "10.0.0.7:7000", movedAt: -1}
	if nd.Symbolic() {
		nd.Replace("net.DialTimeout", s.dial)
	} else {
		ln, err := net.Listen("tcp", "127.0.0.1:0")
		if err != nil {
			panic(err)
		}
		s.addr = ln.Addr().String()
		ln.Close()
	}
	return s
}

func (s *vfServer) dial(network, address string, timeout time.Duration) (net.Conn, error) {
	if !s.up || address != s.addr {
		return nil, errors.New("vf: connection refused")
	}
	b := vfNewBackend()
	b.movedAt, b.movedTo = s.movedAt, s.movedTo
	if s.resetNext {
		s.resetNext = false
		b.Close()
		return b, nil
	}
	s.conns = append(s.conns, b)
	return b, nil
}

func (s *vfServer) setUp(up bool) {
	s.up = up
	if nd.Symbolic() {
		return
	}
	s.mu.Lock()
	defer s.mu.Unlock()
	if up && s.ln == nil {
		ln, err := net.Listen("tcp", s.addr)
		if err != nil {
			panic(err)
		}
		s.ln = ln
		go func() {
			for {
				c, err := ln.Accept()
				if err != nil {
					return
				}
				s.mu.Lock()
				if s.resetNext {
					s.resetNext = false
					s.mu.Unlock()
					c.Close()
					continue
				}
				s.real = append(s.real, c)
				s.mu.Unlock()
				go func() {
					buf := make([]byte, 4096)
					got, replied := 0, 0
					for {
						n, err := c.Read(buf)
						if err != nil {
							return
						}
						got += n
						for got >= vfReqLen {
							got -= vfReqLen
							if replied == s.movedAt {
								c.Write([]byte("-MOVED 1 " + s.movedTo + "\r\n"))
							} else {
								c.Write([]byte("+OK\r\n"))
							}
							replied++
						}
					}
				}()
			}
		}()
	} else if !up && s.ln != nil {
		s.ln.Close()
		s.ln = nil
	}
}

// dropConns closes every established connection (backend crash / network loss).
func (s *vfServer) dropConns() {
	if nd.Symbolic() {
		for _, b := range s.conns {
			b.Close()
		}
		s.conns = nil
		return
	}
	s.mu.Lock()
	for _, c := range s.real {
		c.Close()
	}
	s.real = nil
	s.mu.Unlock()
}

// VfC07_Heal: after a lost connection, a backend restart or a failed first connect, later requests
// for that backend are served over a new connection as soon as it is reachable again; an error
// reply is produced only while it is unreachable.
func VfC07_Heal() {
	nd.ConcreteClock(true)
	srv := vfNewServer()
	u, _ := vfNewUpstream(nil)
	srv.setUp(nd.Bool("initially-up"))
	steps := nd.Param("steps", 3)
	nd.PanicLabel("heal")
	for s := 0; s < steps; s++ {
		switch nd.Concrete(nd.IntRange("event", 0, 2)) {
		case 0: // the backend becomes reachable / unreachable (restart on the same address)
			srv.setUp(!srv.up)
			if !srv.up {
				srv.dropConns()
			}
		case 1: // established connections are lost, the backend stays reachable
			srv.dropConns()
		case 2: // nothing happens
		}
		nd.Quiesce() // the proxy notices (readers see EOF, dead clients deregister)
		req := newSimpleRequest(newStringArray("ping"))
		u.MakeRequestToHost(srv.addr, req)
		nd.Quiesce()
		nd.Assert(vfDone(req.done), "a request for the backend is answered")
		if !vfDone(req.done) {
			return
		}
		ok := req.Response().Type != Error
		nd.Class("stale-connect-result-cached", srv.up && !ok)
		if srv.up {
			nd.Cover("served-while-reachable")
			nd.Assert(ok, "a request is served over a (new) connection whenever the backend is reachable")
		} else {
			nd.Assert(!ok, "an unreachable backend yields an error reply")
		}
	}
	close(u.quit)
}

// VfC07_RefreshTrigger: a redirection that arrives while a slots refresh is in flight (its
// CLUSTER NODES snapshot may predate the layout change) still leads to another refresh round
// afterwards; a failed round re-arms the trigger by itself.
func VfC07_RefreshTrigger() {
	nd.ConcreteClock(true)
	seed := "10.0.0.1:7000"
	u, clients := vfNewUpstream(nil, seed)
	done := make(chan struct{})
	go func() { u.refreshSlots(); close(done) }()
	nd.Quiesce()
	req := vfTake(clients[seed])
	nd.Assert(req != nil, "the refresh asks a seed host")
	if req == nil {
		return
	}
	redirectDuring := nd.Bool("redirect-during-refresh")
	if redirectDuring {
		u.triggerSlotsRefresh() // what handleRedirection does
	}
	ok := nd.Bool("refresh-succeeds")
	if ok {
		req.SetResponse(newBulkString("idA 10.0.1.1:7000@17000 master - 0 0 1 connected 0-16383\n"))
	} else {
		req.SetResponse(newError("ERR not now"))
	}
	nd.Quiesce()
	nd.Assert(vfDone(done), "the refresh round ends")
	if redirectDuring || !ok {
		nd.Cover("another-round-pending")
		nd.Assert(len(u.slotsRefreshCh) == 1, "a redirection during a refresh, or a failed refresh, leaves another refresh round pending")
	}
}

// VfC09_UpstreamStop: stopping the Redis upstream returns also while a backend is unresponsive
// (it accepted the connection but never answers, e.g. the proxy's own CLUSTER NODES request), and
// afterwards every backend connection is closed and no goroutine of the upstream remains.
func VfC09_UpstreamStop() {
	nd.ConcreteClock(true)
	srv := vfNewServer()
	srv.setUp(true)
	silent := nd.Bool("backend-silent")
	if nd.Symbolic() {
		nd.Replace("net.DialTimeout", func(network, address string, timeout time.Duration) (net.Conn, error) {
			c, err := srv.dial(network, address, timeout)
			if err == nil {
				c.(*vfBackend).silent = silent
			}
			return c, err
		})
	}
	u, _ := vfNewUpstream(nil)
	u.hosts.Add(hostNew(srv.addr))
	stopped, served := false, false
	go func() { u.Serve(); served = true }()
	nd.Quiesce() // the refresh loop has asked a seed host for CLUSTER NODES
	nd.Pause()
	go func() { u.Stop(); stopped = true }()
	nd.PanicLabel("upstream-stop")
	nd.Quiesce()
	nd.Class("refresh-waits-forever-for-a-silent-backend", !stopped && silent)
	nd.Assert(stopped, "stopping the upstream returns, also while a backend is unresponsive")
	if stopped {
		nd.Assert(served, "the upstream's serving goroutine ends")
		for _, b := range srv.conns {
			nd.Assert(b.isClosed, "every upstream connection is closed after stop")
		}
		nd.Assert(nd.AllFinished(), "no goroutine of the upstream remains")
		nd.Cover("stopped")
	}
}

// VfC09_StopDuringRedirect: the upstream is stopped while a backend's reader follows a MOVED
// redirection to a node it has no connection to yet (the reader has to create that connection).
// Whatever the interleaving, Stop returns, the redirected request is answered and no goroutine is
// left waiting for a lock.
func VfC09_StopDuringRedirect() {
	nd.ConcreteClock(true)
	srv := vfNewServer()
	srv.movedAt, srv.movedTo = 1, "127.0.0.1:1" // reply 0 answers READONLY; nothing listens on the named node
	srv.setUp(true)
	u, _ := vfNewUpstream(nil)
	stopped, served := false, false
	go func() { u.Serve(); served = true }()
	nd.Quiesce()
	req := newSimpleRequest(newStringArray("ping"))
	nd.PanicLabel("stop-during-redirect")
	u.MakeRequestToHost(srv.addr, req) // queued; the node will answer MOVED
	go func() { u.Stop(); stopped = true }()
	nd.Quiesce()
	nd.Assert(stopped && served, "stopping the upstream returns while a redirection is being followed")
	nd.Assert(vfDone(req.done), "the redirected request is answered")
	nd.Cover("stopped-during-redirect")
}

// VfC07_ImmediateReset: the node resets a connection right after accepting it (it crashes while
// the proxy is still registering the new connection). Whatever the interleaving of the dying
// connection's clean-up with its registration, the dead connection does not stay in the table:
// the next request is served over a new connection.
func VfC07_ImmediateReset() {
	nd.ConcreteClock(true)
	nd.VisibleAtomics(true)
	srv := vfNewServer()
	u, _ := vfNewUpstream(nil)
	srv.setUp(true)
	srv.resetNext = true
	nd.PanicLabel("immediate-reset")
	first := newSimpleRequest(newStringArray("ping"))
	u.MakeRequestToHost(srv.addr, first)
	nd.Quiesce()
	nd.Assert(vfDone(first.done), "the request that met the reset is answered")
	if !vfDone(first.done) {
		return
	}
	nd.VisibleAtomics(false)
	req := newSimpleRequest(newStringArray("ping"))
	u.MakeRequestToHost(srv.addr, req)
	nd.Quiesce()
	nd.Assert(vfDone(req.done), "the next request is answered")
	if !vfDone(req.done) {
		return
	}
	nd.Assert(req.Response().Type != Error, "after a connection that was reset while being registered, the next request is served over a new connection (the backend is reachable)")
	_, stale := u.loadClients()[srv.addr]
	nd.Assert(!stale || len(srv.conns) == 1, "no dead connection stays in the table")
	nd.Cover("healed-after-immediate-reset")
	close(u.quit)
}

// VfC02_ReplaceDuringRedirect: the host list is replaced (all backend connections are stopped)
// while a backend connection's reader is following a redirection to a node it has no connection
// to yet. For every interleaving: the replacement returns, the request is answered, nobody waits
// for anybody forever.
func VfC02_ReplaceDuringRedirect() {
	nd.ConcreteClock(true)
	srv := vfNewServer()
	srv.movedAt, srv.movedTo = 1, "127.0.0.1:1" // reply 0 answers READONLY; nothing listens on the named node
	srv.setUp(true)
	u, _ := vfNewUpstream(nil)
	req := newSimpleRequest(newStringArray("ping"))
	nd.PanicLabel("replace-during-redirect")
	u.MakeRequestToHost(srv.addr, req)
	replaced := false
	go func() {
		u.OnHostReplace([]*host.Host{hostNew(srv.addr)})
		replaced = true
	}()
	nd.Quiesce()
	nd.Assert(replaced, "replacing the host list returns while a redirection is being followed (no lock is held while waiting for a backend connection to stop)")
	nd.Assert(vfDone(req.done), "the redirected request is answered")
	nd.Cover("replaced")
	if vfDone(req.done) && req.Response().Type == Error && !vfHasPrefix(req.Response().Text, backendExited) {
		nd.Cover("redirection-followed") // answered with the connect error of the named node
	}
	later := newSimpleRequest(newStringArray("ping"))
	srv.movedAt = -1
	u.MakeRequestToHost(srv.addr, later)
	nd.Quiesce()
	nd.Assert(vfDone(later.done), "a later request is answered")
	close(u.quit)
}

// VfC07_RefreshReachesLiveHost: the seed host that answered an earlier refresh goes away while
// another seed stays alive, then the layout changes. Routing can only converge if some later
// refresh round asks the live host: that possibility must exist (the choice of the host is
// random; "possible" is decided over all values of the random source: must_reach).
func VfC07_RefreshReachesLiveHost() {
	x, y := "10.0.0.1:7000", "10.0.0.2:7000"
	u, clients := vfNewUpstream(nil, x, y)
	text := "idA 10.0.1.1:7000@17000 myself,master - 0 0 1 connected 0-16383\n"
	round := func() (asked string, err error) {
		done := make(chan error, 1)
		go func() { done <- u.doSlotsRefresh() }()
		nd.Quiesce()
		for _, a := range []string{x, y} {
			if c := clients[a]; c != nil {
				if rq := vfTake(c); rq != nil {
					asked = a
					rq.SetResponse(newBulkString(text))
				}
			}
		}
		nd.Quiesce()
		select {
		case err = <-done:
		default:
			nd.Assert(false, "a refresh round ends")
		}
		return
	}
	nd.PanicLabel("refresh-rounds")
	first, err := round()
	nd.Assert(err == nil && first != "", "the first round is answered by one of the seed hosts")
	if first == "" {
		return
	}
	// that host goes away (connection lost, connecting refused); the other one stays
	u.removeClient(first)
	clients[first] = nil
	live := x
	if first == x {
		live = y
	}
	for r := 0; r < nd.Param("rounds", 3); r++ {
		asked, err := round()
		if asked == live {
			nd.Assert(err == nil, "a round answered by the live host succeeds")
			nd.Cover("asked-the-live-host")
			return
		}
		nd.Assert(err != nil, "a round that could only ask the dead host fails (and is retried)")
	}
}

// VfC07_ConcurrentCallers: two requests for a backend without a connection arrive at the same
// time: at most one connect attempt is in flight per address, both callers get the same live
// connection (or the current connect error), nobody is parked.
func VfC07_ConcurrentCallers() {
	nd.ConcreteClock(true)
	srv := vfNewServer()
	srv.setUp(nd.Bool("reachable"))
	u, _ := vfNewUpstream(nil)
	var cs [2]*client
	var errs [2]error
	var done [2]bool
	for i := 0; i < 2; i++ {
		i := i
		go func() { cs[i], errs[i] = u.getClient(srv.addr); done[i] = true }()
	}
	nd.PanicLabel("get-client")
	nd.Quiesce()
	nd.Assert(done[0] && done[1], "no caller is parked")
	if srv.up {
		nd.Assert(errs[0] == nil && errs[1] == nil && cs[0] != nil && cs[0] == cs[1], "concurrent callers share one live connection")
		nd.Assert(len(srv.conns) == 1, "one connect attempt per address")
		nd.Cover("shared")
	} else {
		nd.Assert(errs[0] != nil && errs[1] != nil, "an unreachable backend yields an error for every caller")
	}
	close(u.quit)
}

// VfC20_RedisUpstreamConns: whatever the Redis upstream counts as backend connections (total,
// destroyed, active) balances once it is quiescent: after requests that open a connection, a
// backend dropping it, the whole host list being replaced (all connections are reset) and the
// upstream being stopped, the active gauge is zero and total == destroyed.
func VfC20_RedisUpstreamConns() {
	nd.ConcreteClock(true)
	srv := vfNewServer()
	srv.setUp(true)
	u, _ := vfNewUpstream(nil)
	served := false
	go func() { u.Serve(); served = true }()
	nd.PanicLabel("redis-upstream-conns")
	steps := nd.Param("steps", 2)
	for s := 0; s < steps; s++ {
		switch nd.Concrete(nd.Choice("event", 3)) {
		case 0:
			req := newSimpleRequest(newStringArray("ping"))
			u.MakeRequestToHost(srv.addr, req)
			nd.Quiesce()
			nd.Assert(vfDone(req.done), "the request is answered")
			nd.Cover("connection-used")
		case 1:
			srv.dropConns()
			nd.Quiesce()
		case 2:
			u.OnHostReplace([]*host.Host{hostNew(srv.addr)})
			nd.Quiesce()
			nd.Cover("host-list-replaced")
		}
	}
	stopped := false
	go func() { u.Stop(); stopped = true }()
	nd.Quiesce()
	nd.Assert(stopped && served, "the upstream stops")
	st := u.stats
	nd.Assert(st.CxActive.Value() == 0, "upstream active-connection gauge is zero at quiescence")
	nd.Assert(st.CxTotal.Value() == st.CxDestroyTotal.Value(), "upstream total connections = destroyed connections at quiescence")
	srv.setUp(false)
}
