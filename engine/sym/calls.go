package sym

import (
	"fmt"
	"strings"
	"go/types"

	"golang.org/x/tools/go/ssa"
	"vf/smt"
)

// Intrinsic implements a call natively. It must either set the result via ret(...) semantics:
// return (value, true) to complete the call, or (nil, false) if it arranged control flow itself
// (pushed a frame, blocked the thread, ...).
type Intrinsic func(e *Engine, st *State, th *Thread, args []Value, call *ssa.CallCommon) (Value, bool)

// prepareCall evaluates the callee and arguments of a call.
func (e *Engine) prepareCall(st *State, fr *Frame, call *ssa.CallCommon) (Value, []Value) {
	var args []Value
	var fnv Value
	if call.IsInvoke() {
		recv := e.val(st, fr, call.Value)
		iv, ok := recv.(Iface)
		if !ok {
			e.unsupported("invoke on %T", recv)
		}
		if iv.T == nil {
			e.oblige(st, e.C.False, "panic", "nil-deref", "method call on nil interface: "+call.Method.Name())
		}
		m := e.Prog.LookupMethod(iv.T, call.Method.Pkg(), call.Method.Name())
		if m == nil {
			e.unsupported("method %s not found on %v", call.Method.Name(), iv.T)
		}
		fnv = Func{Fn: m}
		args = append(args, iv.V)
	} else {
		fnv = e.val(st, fr, call.Value)
	}
	for _, a := range call.Args {
		args = append(args, e.val(st, fr, a))
	}
	return fnv, args
}

func (e *Engine) execCall(st *State, th *Thread, fr *Frame, inst ssa.Value, call *ssa.CallCommon, callInstr *ssa.Call) {
	fnv, args := e.prepareCall(st, fr, call)
	e.invoke(st, th, fnv, args, inst, call)
}

// invoke calls fnv with args. If inst != nil the result is stored into the caller's register and
// the caller advances; otherwise (defer) the caller's position is left unchanged.
func (e *Engine) invoke(st *State, th *Thread, fnv Value, args []Value, inst ssa.Value, call *ssa.CallCommon) {
	f, ok := fnv.(Func)
	if !ok {
		e.unsupported("call of %T", fnv)
	}
	finish := func(ret Value) {
		if inst != nil {
			fr := th.top()
			e.setReg(fr, inst, ret)
			next(fr)
		} else if th.Panicking {
			e.unwind(st, th)
		} else if len(th.Frames) > 0 && th.top().recovering {
			e.finishRecover(st, th)
		}
	}
	if f.B != nil {
		ret := e.builtin(st, th, f.B, args, call)
		finish(ret)
		return
	}
	if f.Fn == nil {
		e.oblige(st, e.C.False, "panic", "nil-deref", "call of nil function")
		return
	}
	fn := f.Fn
	name := fn.String()
	if fn.Origin() != nil {
		name = fn.Origin().String()
	}
	if h, ok := e.hooks[name]; ok {
		hf := h.(Func)
		e.res.Stubs["hook:"+name]++
		e.pushFrame(st, th, hf.Fn, args, hf.Bind, inst)
		return
	}
	if in, ok := e.intr[name]; ok {
		e.res.Stubs[name]++
		ret, done := in(e, st, th, args, call)
		if done {
			if th.Status == TDone || len(th.Frames) == 0 {
				return
			}
			finish(ret)
		}
		return
	}
	if fn.Synthetic == "package initializer" {
		finish(nil)
		return
	}
	if fn.Pkg != nil && strings.HasPrefix(fn.Name(), "Register") && protoPkgs[fn.Pkg.Pkg.Path()] {
		finish(e.zeroResults(fn))
		return
	}
	if fn.Pkg != nil && fn.Signature.Recv() != nil && stubMethodPkgs[fn.Pkg.Pkg.Path()] {
		e.res.Stubs["stub-methods:"+fn.Pkg.Pkg.Path()]++
		finish(e.zeroResults(fn))
		return
	}
	if fn.Pkg != nil && stubPkgs[fn.Pkg.Pkg.Path()] {
		e.res.Stubs["stub-pkg:"+fn.Pkg.Pkg.Path()]++
		finish(e.zeroResults(fn))
		return
	}
	if len(fn.Blocks) == 0 {
		e.unsupported("call to function without body: %s (at %s)", name, e.instrPos(st))
	}
	e.pushFrame(st, th, fn, args, f.Bind, inst)
}

// stubPkgs: every function of these packages is an empty body returning zero values (logging).
var stubPkgs = map[string]bool{
	"github.com/samaritan-proxy/samaritan/logger": true,
	"github.com/tevino/log":                      true,
}

// protoPkgs: registration calls made by generated code's init are skipped.
var protoPkgs = map[string]bool{
	"github.com/gogo/protobuf/proto":   true,
	"github.com/golang/protobuf/proto": true,
}

// stubMethodPkgs: methods (not constructors) of these packages are empty bodies.
var stubMethodPkgs = map[string]bool{
	"github.com/samaritan-proxy/samaritan/proc/internal/log": true,
}

// callThen pushes a call whose return value is handed to k instead of a register.
func (e *Engine) callThen(st *State, th *Thread, f Func, args []Value, k func(st *State, ret Value)) {
	fr := e.pushFrame(st, th, f.Fn, args, f.Bind, nil)
	fr.native = k
}

// ---------- builtins ----------

func (e *Engine) builtin(st *State, th *Thread, b *ssa.Builtin, args []Value, call *ssa.CallCommon) Value {
	c := e.C
	switch b.Name() {
	case "len":
		switch v := args[0].(type) {
		case Slice:
			return v.Len
		case Str:
			return e.strLen(v)
		case MapV:
			return e.mapLen(st, v)
		case ChanV:
			if v.Obj == 0 {
				return e.i64(0)
			}
			return e.i64(uint64(len(e.obj(st, v.Obj).Buf)))
		case Ptr: // *array
			at := call.Args[0].Type().Underlying().(*types.Pointer).Elem().Underlying().(*types.Array)
			return e.i64(uint64(at.Len()))
		case Arr:
			return e.i64(uint64(len(v.E)))
		}
	case "cap":
		switch v := args[0].(type) {
		case Slice:
			return v.Cap
		case ChanV:
			if v.Obj == 0 {
				return e.i64(0)
			}
			return e.i64(uint64(e.obj(st, v.Obj).ChCap))
		case Ptr:
			at := call.Args[0].Type().Underlying().(*types.Pointer).Elem().Underlying().(*types.Array)
			return e.i64(uint64(at.Len()))
		}
	case "append":
		return e.doAppend(st, args[0].(Slice), args[1], call.Args[0].Type().Underlying().(*types.Slice).Elem())
	case "copy":
		return e.doCopy(st, args[0].(Slice), args[1], call.Args[0].Type().Underlying().(*types.Slice).Elem())
	case "delete":
		e.mapDelete(st, args[0].(MapV), args[1], call.Args[1].Type())
		return nil
	case "close":
		e.chanClose(st, args[0].(ChanV))
		return nil
	case "print", "println":
		return nil
	case "recover":
		// only effective when called directly by a deferred function during panicking
		if th.Panicking && !th.Recovered {
			th.Recovered = true
			v := th.PanicVal
			if v == nil {
				v = Iface{}
			}
			return v
		}
		return Iface{}
	case "ssa:wrapnilchk":
		p := args[0].(Ptr)
		e.nilCheck(st, p, "method value on nil pointer")
		return p
	case "min", "max":
		r := args[0].(*smt.Term)
		_, signed, _ := intWidth(call.Args[0].Type())
		for _, a := range args[1:] {
			t := a.(*smt.Term)
			var lt *smt.Term
			if signed {
				lt = c.Slt(t, r)
			} else {
				lt = c.Ult(t, r)
			}
			if b.Name() == "max" {
				lt = c.Not(lt)
			}
			r = c.Ite(lt, t, r)
		}
		return r
	case "String": // unsafe.String(ptr, len)
		p := args[0].(Ptr)
		n := e.idx64(args[1], call.Args[1].Type())
		if p.Obj == 0 {
			return Str{IsConst: true}
		}
		if len(p.Sym) > 0 {
			p = e.resolvePtr(st, p)
		}
		o := e.obj(st, p.Obj)
		r := Str{Sl: Slice{Obj: p.Obj, Base: 0, Stride: 1, ArrLen: len(o.Cells), Off: e.i64(uint64(p.Off)), Len: n, Cap: n}}
		if cs, ok := e.strConcrete(st, r); ok {
			return Str{IsConst: true, S: cs}
		}
		return r
	case "StringData":
		sv := args[0].(Str)
		if sv.IsConst {
			sl := e.strToSlice(st, sv)
			return Ptr{Obj: sl.Obj}
		}
		off := e.concretize(st, sv.Sl.Off, "unsafe.StringData offset")
		return Ptr{Obj: sv.Sl.Obj, Off: sv.Sl.Base + int(off)}
	case "SliceData":
		sv := args[0].(Slice)
		if sv.Obj == 0 {
			return Ptr{}
		}
		off := e.concretize(st, sv.Off, "unsafe.SliceData offset")
		return Ptr{Obj: sv.Obj, Off: sv.Base + int(off)*sv.Stride}
	case "Slice": // unsafe.Slice(ptr, len)
		p := args[0].(Ptr)
		n := e.idx64(args[1], call.Args[1].Type())
		if p.Obj == 0 {
			z := e.i64(0)
			return Slice{Off: z, Len: z, Cap: z, Stride: 1}
		}
		if len(p.Sym) > 0 {
			p = e.resolvePtr(st, p)
		}
		elem := call.Args[0].Type().Underlying().(*types.Pointer).Elem()
		stride := e.L.size(elem)
		o := e.obj(st, p.Obj)
		return Slice{Obj: p.Obj, Base: p.Off % stride, Stride: stride, ArrLen: (len(o.Cells) - p.Off%stride) / stride, Off: e.i64(uint64(p.Off / stride)), Len: n, Cap: n}
	case "clear":
		if m, ok := args[0].(MapV); ok {
			o := e.wobj(st, m.Obj)
			o.Ent = nil
			return nil
		}
	}
	e.unsupported("builtin %s on %T", b.Name(), args[0])
	return nil
}

func (e *Engine) doAppend(st *State, s Slice, more Value, elem types.Type) Value {
	c := e.C
	var src Slice
	switch m := more.(type) {
	case Slice:
		src = m
	case Str:
		if m.IsConst && m.S == "" {
			return s
		}
		src = e.strToSlice(st, m)
	default:
		e.unsupported("append of %T", more)
	}
	if src.Obj == 0 || (src.Len.IsConst() && src.Len.Val == 0) {
		return s
	}
	n := e.concretize(st, src.Len, "append count")
	if n == 0 {
		return s
	}
	stride := e.L.size(elem)
	// read source elements first (memmove semantics)
	vals := make([][]Value, n)
	for i := uint64(0); i < n; i++ {
		vals[i] = e.readCells(st, src, e.i64(i), stride)
	}
	need := c.Add(s.Len, e.i64(n))
	fits := c.Ule(need, s.Cap)
	if s.Obj != 0 && e.branch(st, fits, "append fits in capacity") {
		for i := uint64(0); i < n; i++ {
			e.writeCells(st, s, c.Add(s.Len, e.i64(i)), vals[i])
		}
		ns := s
		ns.Len = need
		return ns
	}
	// grow: new backing array. Capacity rule (documented approximation of runtime.growslice):
	// max(needed, 2*oldcap).
	oldLen := e.concretize(st, s.Len, "append: old length on growth")
	oldCap := uint64(0)
	if s.Obj != 0 {
		oldCap = e.concretize(st, s.Cap, "append: old capacity on growth")
	}
	newCap := oldLen + n
	if 2*oldCap > newCap {
		newCap = 2 * oldCap
	}
	ns := e.newArray(st, elem, int(newCap))
	for i := uint64(0); i < oldLen; i++ {
		e.writeCells(st, ns, e.i64(i), e.readCells(st, s, e.i64(i), stride))
	}
	for i := uint64(0); i < n; i++ {
		e.writeCells(st, ns, e.i64(oldLen+i), vals[i])
	}
	ns.Len = e.i64(oldLen + n)
	return ns
}

// readCells reads the stride cells of element i.
func (e *Engine) readCells(st *State, s Slice, i *smt.Term, stride int) []Value {
	p := e.elemPtr(s, i)
	if len(p.Sym) > 0 && stride == 1 {
		return []Value{e.load(st, p, types.Typ[types.Uint8])} // scalar merge path; type only matters for size
	}
	if len(p.Sym) > 0 {
		p = e.resolvePtr(st, p)
	}
	o := e.obj(st, p.Obj)
	return append([]Value(nil), o.Cells[p.Off:p.Off+stride]...)
}

func (e *Engine) writeCells(st *State, s Slice, i *smt.Term, vals []Value) {
	p := e.elemPtr(s, i)
	if len(p.Sym) > 0 && len(vals) == 1 {
		e.store(st, p, types.Typ[types.Uint8], vals[0])
		return
	}
	if len(p.Sym) > 0 {
		p = e.resolvePtr(st, p)
	}
	o := e.wobj(st, p.Obj)
	copy(o.Cells[p.Off:p.Off+len(vals)], vals)
}

func (e *Engine) doCopy(st *State, dst Slice, srcv Value, elem types.Type) Value {
	c := e.C
	var src Slice
	switch m := srcv.(type) {
	case Slice:
		src = m
	case Str:
		src = e.strToSlice(st, m)
	}
	n := c.Ite(c.Ult(dst.Len, src.Len), dst.Len, src.Len)
	cnt := e.concretize(st, n, "copy count")
	stride := e.L.size(elem)
	vals := make([][]Value, cnt)
	for i := uint64(0); i < cnt; i++ {
		vals[i] = e.readCells(st, src, e.i64(i), stride)
	}
	for i := uint64(0); i < cnt; i++ {
		e.writeCells(st, dst, e.i64(i), vals[i])
	}
	return e.i64(cnt)
}

// ---------- maps ----------

func (e *Engine) mapLen(st *State, m MapV) *smt.Term {
	if m.Obj == 0 {
		return e.i64(0)
	}
	n := 0
	for _, en := range e.obj(st, m.Obj).Ent {
		if !en.Deleted {
			n++
		}
	}
	return e.i64(uint64(n))
}

// mapFind returns the index of the entry matching key on this path (forking when symbolic), or -1.
func (e *Engine) mapFind(st *State, m MapV, key Value, kt types.Type) int {
	if m.Obj == 0 {
		return -1
	}
	o := e.obj(st, m.Obj)
	var guards []*smt.Term
	var idx []int
	none := e.C.True
	for i, en := range o.Ent {
		if en.Deleted {
			continue
		}
		eq := e.valEq(st, key, en.K, kt)
		if eq.IsTrue() {
			return i
		}
		if eq.IsFalse() {
			continue
		}
		guards = append(guards, eq)
		idx = append(idx, i)
		none = e.C.And(none, e.C.Not(eq))
	}
	if len(guards) == 0 {
		return -1
	}
	guards = append(guards, none)
	idx = append(idx, -1)
	return idx[e.choose(st, guards, "map key match")]
}

func (e *Engine) execLookup(st *State, fr *Frame, x *ssa.Lookup) {
	xv := e.val(st, fr, x.X)
	if s, ok := xv.(Str); ok {
		i := e.idx64(e.val(st, fr, x.Index), x.Index.Type())
		e.boundsCheck(st, i, e.strLen(s), "string index")
		e.setReg(fr, x, e.strByte(st, s, i))
		return
	}
	m := xv.(MapV)
	mt := x.X.Type().Underlying().(*types.Map)
	key := e.val(st, fr, x.Index)
	var res Value
	found := false
	// term-valued maps with symbolic keys: ite chain instead of forking
	if m.Obj != 0 {
		if r, ok, did := e.mapLookupIte(st, m, key, mt); did {
			if x.CommaOk {
				e.setReg(fr, x, Tuple{[]Value{r, ok}})
			} else {
				e.setReg(fr, x, r)
			}
			return
		}
	}
	i := e.mapFind(st, m, key, mt.Key())
	if i >= 0 {
		res = e.obj(st, m.Obj).Ent[i].V
		found = true
	} else {
		res = e.zero(mt.Elem())
	}
	if x.CommaOk {
		e.setReg(fr, x, Tuple{[]Value{res, e.C.Bool(found)}})
	} else {
		e.setReg(fr, x, res)
	}
}

func (e *Engine) mapLookupIte(st *State, m MapV, key Value, mt *types.Map) (Value, *smt.Term, bool) {
	o := e.obj(st, m.Obj)
	zero := e.zero(mt.Elem())
	zt, isTerm := zero.(*smt.Term)
	isUnit := false
	if s, ok := zero.(Struct); ok && len(s.F) == 0 {
		isUnit = true
	}
	if !isTerm && !isUnit {
		return nil, nil, false
	}
	c := e.C
	anySym := false
	res := zt
	okT := c.False
	for i := len(o.Ent) - 1; i >= 0; i-- {
		en := o.Ent[i]
		if en.Deleted {
			continue
		}
		eq := e.valEq(st, key, en.K, mt.Key())
		if eq.IsFalse() {
			continue
		}
		if !eq.IsConst() {
			anySym = true
		}
		okT = c.Or(eq, okT)
		if isTerm {
			res = c.Ite(eq, en.V.(*smt.Term), res)
		}
	}
	if !anySym {
		return nil, nil, false
	}
	if isUnit {
		return zero, okT, true
	}
	return res, okT, true
}

func (e *Engine) mapUpdate(st *State, m MapV, key, val Value, kt types.Type) {
	if m.Obj == 0 {
		e.oblige(st, e.C.False, "panic", "nil-map-write", "assignment to entry in nil map")
		return
	}
	i := e.mapFind(st, m, key, kt)
	o := e.wobj(st, m.Obj)
	if i >= 0 {
		o.Ent[i].V = val
		return
	}
	o.Ent = append(o.Ent, MapEntry{K: key, V: val})
}

func (e *Engine) mapDelete(st *State, m MapV, key Value, kt types.Type) {
	if m.Obj == 0 {
		return
	}
	i := e.mapFind(st, m, key, kt)
	if i >= 0 {
		o := e.wobj(st, m.Obj)
		o.Ent[i].Deleted = true
	}
}

// ---------- range ----------

// iterator state lives in an opaque object so that it forks with the state.
func (e *Engine) execRange(st *State, fr *Frame, x *ssa.Range) {
	xv := e.val(st, fr, x.X)
	id, o := e.newObj(st, ObjOpaque, nil)
	o.Aux = map[string]Value{"pos": e.i64(0)}
	switch v := xv.(type) {
	case Str:
		o.Aux["str"] = v
	case MapV:
		o.Aux["map"] = v
		// snapshot of entry count: entries appended during iteration may or may not be visited (Go
		// allows either); we do not visit them.
		n := 0
		if v.Obj != 0 {
			n = len(e.obj(st, v.Obj).Ent)
		}
		o.Aux["n"] = e.i64(uint64(n))
	default:
		e.unsupported("range over %T", xv)
	}
	e.setReg(fr, x, Ptr{Obj: id})
}

func (e *Engine) execNext(st *State, fr *Frame, x *ssa.Next) {
	c := e.C
	it := e.val(st, fr, x.Iter).(Ptr)
	o := e.wobj(st, it.Obj)
	pos := o.Aux["pos"].(*smt.Term)
	if x.IsString {
		s := o.Aux["str"].(Str)
		n := e.strLen(s)
		if !e.branch(st, c.Ult(pos, n), "range string") {
			e.setReg(fr, x, Tuple{[]Value{c.False, e.i64(0), c.BV(0, 32)}})
			return
		}
		b := e.strByte(st, s, pos)
		e.assume(st, c.Ult(b, c.BV(0x80, 8)), "range over string: ASCII only")
		o = e.wobj(st, it.Obj)
		o.Aux["pos"] = c.Add(pos, e.i64(1))
		e.setReg(fr, x, Tuple{[]Value{c.True, pos, c.Zext(b, 32)}})
		return
	}
	m := o.Aux["map"].(MapV)
	n := int(o.Aux["n"].(*smt.Term).Val)
	mt := x.Iter.(*ssa.Range).X.Type().Underlying().(*types.Map)
	i := int(pos.Val)
	if m.Obj != 0 {
		mo := e.obj(st, m.Obj)
		for i < n && i < len(mo.Ent) && mo.Ent[i].Deleted {
			i++
		}
		if i < n && i < len(mo.Ent) {
			o.Aux["pos"] = e.i64(uint64(i + 1))
			e.setReg(fr, x, Tuple{[]Value{c.True, mo.Ent[i].K, mo.Ent[i].V}})
			return
		}
	}
	o.Aux["pos"] = e.i64(uint64(n))
	e.setReg(fr, x, Tuple{[]Value{c.False, e.zero(mt.Key()), e.zero(mt.Elem())}})
}

var _ = fmt.Sprint
