// vf: solver-based checking of samaritan's real code (go/ssa → SMT-LIB2 → z3).
package main

import (
	"time"
	"encoding/json"
	"flag"
	"fmt"
	"os"
	"os/signal"
	"syscall"
	"path/filepath"
	"regexp"
	"runtime/pprof"
	"strings"

	"vf/smt"
	"vf/sym"
)

const (
	verifDir = "/verif"
	modPath  = "github.com/samaritan-proxy/samaritan"
)

// repoDir is the tree under check: /repo, unless VF_REPO points at a scratch worktree (used only
// when trying seeded changes; registered checks always run against /repo).
var repoDir = func() string {
	if d := os.Getenv("VF_REPO"); d != "" {
		return d
	}
	return "/repo"
}()

func main() {
	if len(os.Args) < 2 {
		fmt.Fprintln(os.Stderr, "usage: vf run|check|replay|selftest ...")
		os.Exit(2)
	}
	switch os.Args[1] {
	case "run":
		os.Exit(cmdRun(os.Args[2:]))
	case "check":
		os.Exit(cmdCheck(os.Args[2:]))
	case "replay":
		os.Exit(cmdReplay(os.Args[2:]))
	default:
		fmt.Fprintln(os.Stderr, "unknown command", os.Args[1])
		os.Exit(2)
	}
}

var pkgDirective = regexp.MustCompile(`(?m)^//vf:pkg\s+(\S+)`)

// buildOverlay maps harness files into the repository as in-package files.
func buildOverlay(files []string) (map[string][]byte, []string, error) {
	ov := map[string][]byte{}
	nd, err := os.ReadFile(filepath.Join(verifDir, "vfnd", "nd.go"))
	if err != nil {
		return nil, nil, err
	}
	ov[filepath.Join(repoDir, "vfnd", "nd.go")] = nd
	dirs := map[string]bool{}
	for _, f := range files {
		p := f
		if !filepath.IsAbs(p) {
			p = filepath.Join(verifDir, "harness", f)
		}
		b, err := os.ReadFile(p)
		if err != nil {
			return nil, nil, err
		}
		m := pkgDirective.FindSubmatch(b)
		if m == nil {
			return nil, nil, fmt.Errorf("%s: missing //vf:pkg directive", p)
		}
		dir := string(m[1])
		base := strings.TrimSuffix(filepath.Base(p), ".go")
		parent := filepath.Base(filepath.Dir(p))
		ov[filepath.Join(repoDir, dir, "zz_vf_"+parent+"_"+base+".go")] = b
		dirs[dir] = true
	}
	var pats []string
	for d := range dirs {
		pats = append(pats, "./"+d)
	}
	pats = append(pats, "./vfnd")
	return ov, pats, nil
}

type runOut struct {
	*sym.Result
	FindingsOut []findingOut `json:"findings"`
	Error       string       `json:"error,omitempty"`
}

type findingOut struct {
	Kind  string            `json:"kind"`
	Label string            `json:"label"`
	Msg   string            `json:"msg"`
	Pos   string            `json:"pos"`
	Class string            `json:"class,omitempty"`
	ND    map[string]uint64 `json:"nd"`
	Notes map[string]uint64 `json:"notes,omitempty"`
	Stack []string          `json:"stack,omitempty"`
	Sched []int             `json:"sched,omitempty"`
}

func cmdRun(args []string) int {
	fs := flag.NewFlagSet("run", flag.ExitOnError)
	pkg := fs.String("pkg", "", "package dir relative to the repository (e.g. proc/redis)")
	fn := fs.String("fn", "", "harness function")
	files := fs.String("files", "", "comma-separated harness files (relative to /verif/harness)")
	verbose := fs.Int("v", 0, "verbosity")
	maxPaths := fs.Int("max-paths", 0, "")
	maxSym := fs.Int("max-symbr", 0, "")
	maxVisit := fs.Int("max-visit", 0, "")
	maxConc := fs.Int("max-conc", 0, "")
	maxDepth := fs.Int("max-depth", 0, "")
	maxSteps := fs.Int("max-steps", 0, "")
	dedup := fs.String("dedup", "", "1 = merge identical states reached on different schedules (canonical state digest; measured slower than re-exploring on the current harnesses)")
	preempt := fs.Int("preempt", -1, "")
	timeout := fs.Int("timeout-ms", 0, "")
	wallS := fs.Int("wall-s", 0, "give up exploring after this many seconds (inconclusive unless a counterexample was found)")
	grace := fs.Int("grace-s", 0, "stop exploring this many seconds after the first counterexample that is not a listed finding (0: explore everything)")
	solver := fs.String("solver", "z3-new -in", "")
	out := fs.String("o", "", "output json")
	logf := fs.String("smtlog", "", "")
	prof := fs.String("cpuprofile", "", "")
	paramsJ := fs.String("params", "", "json map of harness parameters")
	knownJ := fs.String("known", "", "json map label -> known classes")
	dump := fs.String("dump", "", "directory for stand-alone obligation queries")
	inc := fs.String("inc", "", "1 = keep the path condition on the solver stack between queries (helps long paths with easy queries, hurts hard bit-vector queries)")
	fs.Parse(args)
	if *prof != "" {
		pf, _ := os.Create(*prof)
		pprof.StartCPUProfile(pf)
		sig := make(chan os.Signal, 1)
		signal.Notify(sig, syscall.SIGTERM, syscall.SIGINT)
		go func() { <-sig; pprof.StopCPUProfile(); os.Exit(3) }()
		defer pprof.StopCPUProfile()
	}
	if *inc == "1" {
		sym.Inc = true
	}
	opt := sym.DefaultOptions()
	opt.Verbose = *verbose
	if *maxPaths > 0 {
		opt.MaxPaths = *maxPaths
	}
	if *maxSym > 0 {
		opt.MaxSymBranch = *maxSym
	}
	if *maxVisit > 0 {
		opt.MaxBlockVisit = *maxVisit
	}
	if *maxConc > 0 {
		opt.MaxConc = *maxConc
	}
	if *maxDepth > 0 {
		opt.MaxDepth = *maxDepth
	}
	if *maxSteps > 0 {
		opt.MaxSteps = *maxSteps
	}
	if *timeout > 0 {
		opt.TimeoutMs = *timeout
	}
	opt.Preempt = *preempt
	opt.GraceAfterFinding = time.Duration(*grace) * time.Second
	opt.WallLimit = time.Duration(*wallS) * time.Second
	opt.Dedup = *dedup == "1"
	if *paramsJ != "" && *paramsJ != "null" {
		json.Unmarshal([]byte(*paramsJ), &opt.Params)
	}
	if *knownJ != "" && *knownJ != "null" {
		json.Unmarshal([]byte(*knownJ), &opt.Known)
	}
	opt.DumpDir = *dump
	opt.DumpMax = 60
	opt.SolverBin = strings.Fields(*solver)
	res, err := runHarness(*pkg, *fn, strings.Split(*files, ","), opt, *logf)
	ro := runOut{Result: res}
	if err != nil {
		ro.Error = err.Error()
		if res == nil {
			ro.Result = &sym.Result{}
		}
	}
	if res != nil {
		for _, f := range res.Findings {
			ro.FindingsOut = append(ro.FindingsOut, toFindingOut(f))
		}
	}
	b, _ := json.MarshalIndent(ro, "", " ")
	if *out != "" {
		os.WriteFile(*out, b, 0o644)
	} else {
		os.Stdout.Write(b)
		fmt.Println()
	}
	if err != nil {
		fmt.Fprintln(os.Stderr, "error:", err)
		return 2
	}
	return 0
}

func toFindingOut(f *sym.Finding) findingOut {
	fo := findingOut{Kind: f.Kind, Label: f.Label, Msg: f.Msg, Pos: f.Pos, Class: f.Class, ND: map[string]uint64{}, Notes: f.Notes, Stack: f.Stack, Sched: f.Sched}
	for _, v := range f.Vars {
		fo.ND[v.Name] = f.Model[v.Name]
	}
	return fo
}

func runHarness(pkgDir, fn string, files []string, opt sym.Options, smtlog string) (*sym.Result, error) {
	ov, pats, err := buildOverlay(files)
	if err != nil {
		return nil, err
	}
	prog, pkgs, err := sym.Load(repoDir, ov, "", pats...)
	if err != nil {
		return nil, err
	}
	eng, err := sym.New(prog, pkgs, opt)
	if err != nil {
		return nil, err
	}
	defer eng.Close()
	if smtlog != "" {
		f, _ := os.Create(smtlog)
		defer f.Close()
		eng.S.Log = f
	}
	f := eng.FindFunc(modPath+"/"+pkgDir, fn)
	if f == nil {
		return nil, fmt.Errorf("harness %s not found in %s", fn, pkgDir)
	}
	return eng.Run(f), nil
}

var _ = smt.Sat
