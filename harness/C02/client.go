//vf:pkg proc/redis
package redis

import (
	"errors"
	"io"
	"net"
	"time"

	"github.com/samaritan-proxy/samaritan/proc/internal/log"

	nd "github.com/samaritan-proxy/samaritan/vfnd"
)

// vfBackend is a backend connection double at byte level. It counts the request bytes the
// client's encoder flushed (every request of the harness encodes to vfReqLen bytes) and makes one
// "+OK\r\n" reply available per complete request, unless it stays silent. Reads block (on a
// channel) until a reply is available or the connection is closed; a read may also fail (reset).
type vfBackend struct {
	got     int // request bytes received
	replied int // replies handed out
	silent  bool
	failWriteAt int // index of the Write call that fails (-1: never)
	nwrites int
	resetOnRead bool // the next read that would block fails instead (connection reset), once
	wake    chan struct{}
	closed  chan struct{}
	isClosed bool
	writeErr error
	movedAt  int    // index of the reply that is a MOVED redirection instead of +OK (-1: none)
	movedTo  string // the node it names
}

const vfReqLen = 14 // *1\r\n$4\r\nping\r\n

var vfErrReset = errors.New("vf: connection reset by peer")

func vfNewBackend() *vfBackend {
	return &vfBackend{failWriteAt: -1, movedAt: -1, writeErr: vfErrReset, wake: make(chan struct{}, 8), closed: make(chan struct{})}
}

func (b *vfBackend) Write(p []byte) (int, error) {
	k := b.nwrites
	b.nwrites++
	if b.isClosed {
		return 0, vfErrReset
	}
	if k == b.failWriteAt {
		return 0, b.writeErr
	}
	b.got += len(p)
	select {
	case b.wake <- struct{}{}:
	default:
	}
	return len(p), nil
}

func (b *vfBackend) Read(p []byte) (int, error) {
	for {
		if b.isClosed {
			return 0, io.EOF
		}
		if !b.silent && b.replied < b.got/vfReqLen {
			b.replied++
			if b.replied-1 == b.movedAt {
				return copy(p, "-MOVED 1 "+b.movedTo+"\r\n"), nil
			}
			return copy(p, "+OK\r\n"), nil
		}
		if b.resetOnRead {
			b.resetOnRead = false
			return 0, vfErrReset
		}
		select {
		case <-b.wake:
		case <-b.closed:
		}
	}
}

func (b *vfBackend) Close() error {
	if !b.isClosed {
		b.isClosed = true
		close(b.closed)
	}
	return nil
}
func (b *vfBackend) LocalAddr() net.Addr                { return &net.TCPAddr{Port: 1} }
func (b *vfBackend) RemoteAddr() net.Addr               { return &net.TCPAddr{Port: 2} }
func (b *vfBackend) SetDeadline(t time.Time) error      { return nil }
func (b *vfBackend) SetReadDeadline(t time.Time) error  { return nil }
func (b *vfBackend) SetWriteDeadline(t time.Time) error { return nil }

func vfNewClient(conn net.Conn, qcap int) *client {
	return &client{
		cfg:            vfConfig(),
		logger:         log.New("vf"),
		conn:           conn,
		enc:            newEncoder(conn, 4096),
		dec:            newDecoder(conn, 8192),
		filter:         newRequestFilterChain(),
		pendingReqs:    make(chan *simpleRequest, qcap),
		processingReqs: make(chan *simpleRequest, qcap),
		quit:           make(chan struct{}),
		done:           make(chan struct{}),
	}
}

// VfC02_ClientLifecycle: requests handed to a backend connection are each answered exactly once
// — by the backend's reply or by an error — for every interleaving of the senders, the
// connection's writer and reader, a backend that answers, stays silent or resets, a failing
// write, and Stop; nobody stays parked forever.
func VfC02_ClientLifecycle() {
	nd.ConcreteClock(true)
	be := vfNewBackend()
	be.silent = nd.Bool("backend-silent")
	if nd.Bool("write-fails") {
		be.failWriteAt = nd.Concrete(nd.IntRange("failat", 0, 1))
		if nd.Bool("closed-error") { // the error text net.Conn returns after a local Close
			be.writeErr = errors.New("write tcp 10.0.0.1:1->10.0.0.2:2: use of closed network connection")
		}
	}
	be.resetOnRead = nd.Bool("backend-resets")
	c := vfNewClient(be, nd.Param("qcap", 2))
	n := nd.Param("requests", 2)
	reqs := make([]*simpleRequest, n)
	for i := range reqs {
		reqs[i] = newSimpleRequest(newStringArray("ping"))
	}
	started, stopReturned := false, false
	sent := make([]bool, n)
	go func() { c.Start(); started = true }()
	for i := range reqs {
		i := i
		go func() { c.Send(reqs[i]); sent[i] = true }()
	}
	doStop := nd.Bool("stop") || be.silent // a silent backend is only ended by Stop
	if doStop {
		nd.Pause()
		go func() { c.Stop(); stopReturned = true }()
	}
	nd.PanicLabel("client")
	nd.Quiesce()
	for i, r := range reqs {
		nd.Class("sender-parked-on-dead-connection", !sent[i])
		nd.Assert(sent[i], "Send returns (no sender is parked forever)")
		nd.Class("request-lost", sent[i] && !vfDone(r.done))
		if sent[i] {
			ended := doStop || be.failWriteAt >= 0 || started
			nd.Assert(vfDone(r.done) || !ended, "every request handed to the connection is answered once the connection has ended")
			if !be.silent && be.failWriteAt < 0 && !doStop && !started {
				nd.Assert(vfDone(r.done), "a request sent to a live, answering backend is answered")
			}
		}
	}
	if doStop {
		nd.Class("stop-hangs", !stopReturned)
		nd.Assert(stopReturned, "Stop returns")
		nd.Assert(started, "the connection's goroutines end after Stop")
	}
	if be.failWriteAt >= 0 || doStop {
		nd.Cover("connection-ended")
	}
}
