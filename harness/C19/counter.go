//vf:pkg proc/redis/hotkey
package hotkey

import (
	nd "github.com/samaritan-proxy/samaritan/vfnd"
)

// the last key is longer than any size a "reasonable key" limit might be set at
var vfKeys = []string{"a", "b", "c", vfLongKey()}

func vfLongKey() string {
	b := make([]byte, 1100)
	for i := range b {
		b[i] = 'k'
	}
	return string(b)
}

// vfRepOK walks the counter's frequency list: well linked both ways, nodes non-empty and strictly
// ascending, every item points at its node, the map is exactly the union of the item lists.
func vfRepOK(c *Counter, model map[string]uint64) bool {
	seen := 0
	var prev *freqNode
	for n := c.freqHead; n != nil; n = n.next {
		if n.prev != prev || n.itemHead == nil || n.itemTail == nil {
			return false
		}
		if prev != nil && prev.freq >= n.freq {
			return false
		}
		var pi *itemNode
		for it := n.itemHead; it != nil; it = it.next {
			if it.prev != pi || it.freqNode != n || c.items[it.key] != it {
				return false
			}
			if cnt, ok := model[it.key]; !ok || cnt != n.freq {
				return false
			}
			pi = it
			seen++
			if seen > 16 {
				return false
			}
		}
		if n.itemTail != pi {
			return false
		}
		prev = n
	}
	return seen == len(c.items) && seen == len(model)
}

// VfC19_CounterHistory: for every sequence of key accesses and latches on a counter of capacity
// 1..3: never more keys than the capacity; every tracked key's count is exactly the number of
// accesses since it was last admitted; when full, a key with the lowest count is evicted; Latch
// reports the counts and empties the counter.
func VfC19_CounterHistory() {
	steps := nd.Param("steps", 5)
	capacity := nd.Concrete(nd.IntRange("capacity", 1, 3))
	c := NewCounter(uint8(capacity), nil)
	model := map[string]uint64{}
	nd.PanicLabel("counter")
	for s := 0; s < steps; s++ {
		if nd.Bool("latch") {
			got := c.Latch()
			nd.Assert(len(got) == len(model), "Latch reports every tracked key")
			for k, v := range model {
				nd.Assert(got[k] == v, "Latch reports exactly the number of accesses since admission")
			}
			model = map[string]uint64{}
			nd.Assert(len(c.items) == 0 && c.freqHead == nil, "Latch empties the counter")
			continue
		}
		key := vfKeys[nd.Concrete(nd.Choice("key", len(vfKeys)))]
		_, tracked := model[key]
		min := uint64(0)
		for _, v := range model {
			if min == 0 || v < min {
				min = v
			}
		}
		before := map[string]uint64{}
		for k, v := range model {
			before[k] = v
		}
		c.Incr(key)
		if tracked {
			model[key]++
		} else {
			if len(model) >= capacity {
				// exactly one key must have been evicted, and it had the lowest count
				evicted := ""
				n := 0
				for k := range before {
					if _, still := c.items[k]; !still {
						evicted = k
						n++
					}
				}
				nd.Assert(n == 1, "admitting a key into a full counter evicts exactly one key")
				if n == 1 {
					nd.Assert(before[evicted] == min, "the evicted key has the lowest count")
					delete(model, evicted)
					nd.Cover("evicted")
				}
			}
			model[key] = 1
		}
		nd.Assert(len(c.items) <= capacity, "the counter never tracks more keys than its capacity")
		nd.Assert(vfRepOK(c, model), "every tracked key's count is exactly its accesses since admission; the structure is well formed")
	}
}

// VfC19_Insert: inserting into the sorted report keeps it sorted by non-increasing heat, within
// capacity and free of duplicates (names distinct by construction of collect).
func VfC19_Insert() {
	capacity := nd.Concrete(nd.IntRange("capacity", 1, 3))
	n := nd.Concrete(nd.IntRange("n", 0, capacity))
	s := newSortedHotKeys(uint8(capacity))
	names := []string{"k0", "k1", "k2"}
	for i := 0; i < n; i++ {
		s.data = append(s.data, HotKey{Name: names[i], Counter: &logrithmCounter{val: nd.Byte("val")}})
	}
	for i := 1; i < n; i++ {
		nd.Assume(s.data[i-1].Counter.val >= s.data[i].Counter.val)
	}
	nk := HotKey{Name: "new", Counter: &logrithmCounter{val: nd.Byte("newval")}}
	nd.PanicLabel("insert")
	ok := s.Insert(nk)
	d := s.Data()
	nd.Assert(len(d) <= capacity, "the report never exceeds the capacity")
	found := 0
	for i := range d {
		if i > 0 {
			nd.Assert(d[i-1].Counter.val >= d[i].Counter.val, "the report is ordered by non-increasing heat")
		}
		if d[i].Name == "new" {
			found++
		}
	}
	nd.Assert(found <= 1 && (found == 1) == ok, "a key is listed at most once, and exactly when Insert reports success")
}

// VfC19_EvictStale: decaying the report (halving entries not updated in the current minute,
// dropping cold ones) keeps it ordered, duplicate-free and within capacity, for every report
// state that collect can leave behind (per-entry update minutes may differ by one when a collect
// pass straddles a minute boundary).
func VfC19_EvictStale() {
	n := nd.Concrete(nd.IntRange("n", 0, 3))
	now := nd.Int64("now")
	nd.Assume(now >= 1 && now < 1<<40)
	old := nowInMinute
	defer func() { nowInMinute = old }()
	nowInMinute = func() int64 { return now }
	c := NewCollector(3)
	names := []string{"k0", "k1", "k2"}
	for i := 0; i < n; i++ {
		lut := nd.Int64("lut")
		nd.Assume(lut <= now && lut >= now-2)
		c.keys = append(c.keys, HotKey{Name: names[i], Counter: &logrithmCounter{val: nd.Byte("val"), lut: lut}})
	}
	for i := 0; i < n; i++ {
		nd.Assume(c.keys[i].Counter.val > 0)
		if i > 0 {
			nd.Assume(c.keys[i-1].Counter.val >= c.keys[i].Counter.val)
		}
	}
	nd.PanicLabel("evict-stale")
	nd.Class("halving-breaks-order", true)
	// a HOTKEY reader holds the report it was given (HotKeys returns the slice, the reader walks
	// it without the lock): the entries it sees must not change under it
	held := c.HotKeys()
	heldNames := make([]string, len(held))
	for i := range held {
		heldNames[i] = held[i].Name
	}
	c.evictStale()
	for i := range held {
		nd.Assert(held[i].Name == heldNames[i], "a report handed to a reader is not rewritten by a later decay pass (the reader never sees a key twice or misses one)")
	}
	got := c.HotKeys()
	nd.Assert(len(got) <= n, "decay never adds keys")
	for i := range got {
		nd.Assert(got[i].Counter.val > 0, "cold keys are dropped")
		if i > 0 {
			nd.Assert(got[i-1].Counter.val >= got[i].Counter.val, "the report stays ordered by non-increasing heat after decay")
			nd.Assert(got[i-1].Name != got[i].Name, "no key is listed twice")
		}
	}
}

// VfC19_Collect: one collection period: the report lists only keys that were accessed (now or
// earlier), each at most once, at most `capacity` of them, ordered by heat.
func VfC19_Collect() {
	nd.ConcreteClock(true)
	capacity := nd.Concrete(nd.IntRange("capacity", 1, 2))
	c := NewCollector(uint8(capacity))
	c1, c2 := c.AllocCounter("10.0.0.1:7000"), c.AllocCounter("10.0.0.2:7000")
	nd.Assert(c.AllocCounter("10.0.0.1:7000") == c1 && c1 != c2, "one counter per backend address")
	accessed := map[string]bool{}
	for i := 0; i < nd.Param("accesses", 3); i++ {
		k := vfKeys[nd.Concrete(nd.Choice("key", 3))]
		accessed[k] = true
		if nd.Bool("second") {
			c2.Incr(k)
		} else {
			c1.Incr(k)
		}
	}
	nd.PanicLabel("collect")
	rounds := nd.Concrete(nd.IntRange("rounds", 1, 2))
	for r := 0; r < rounds; r++ {
		held := c.HotKeys()
		heldNames := make([]string, len(held))
		for i := range held {
			heldNames[i] = held[i].Name
		}
		c.collect()
		for i := range held {
			nd.Assert(held[i].Name == heldNames[i], "a report handed to a reader is not rewritten by a later collection")
		}
		if r == 0 && rounds == 2 {
			c1.Incr("d")
			accessed["d"] = true
		}
	}
	got := c.HotKeys()
	nd.Assert(len(got) <= capacity, "the report never lists more keys than the collector's capacity")
	for i := range got {
		nd.Assert(accessed[got[i].Name], "the report contains only keys that were actually accessed")
		for j := 0; j < i; j++ {
			nd.Assert(got[j].Name != got[i].Name, "no key is listed twice")
		}
		if i > 0 {
			nd.Assert(got[i-1].Counter.val >= got[i].Counter.val, "the report is ordered by non-increasing heat")
		}
	}
	// registry: Free removes the counter; a later AllocCounter makes a fresh empty one
	c1.Free()
	c3 := c.AllocCounter("10.0.0.1:7000")
	nd.Assert(c3 != c1 && len(c3.items) == 0, "a freed counter leaves the registry; the address later gets a fresh empty counter")
	nd.Cover("collected")
}
