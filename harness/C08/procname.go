//vf:pkg proc
package proc

import (
	"github.com/samaritan-proxy/samaritan/host"
	"github.com/samaritan-proxy/samaritan/pb/config/protocol"
	"github.com/samaritan-proxy/samaritan/pb/config/service"

	nd "github.com/samaritan-proxy/samaritan/vfnd"
)

type vfBuilt struct {
	Proc
	p BuildParams
}

func (b *vfBuilt) Name() string                            { return b.p.Name }
func (b *vfBuilt) Config() *service.Config                 { return b.p.Cfg }
func (b *vfBuilt) OnSvcConfigUpdate(*service.Config) error { return nil }

type vfBuilder struct{}

func (vfBuilder) Build(p BuildParams) (Proc, error) { return &vfBuilt{p: p}, nil }

// VfC08_ProcIdentity: the controller files a processor under Proc.Name() and looks it up by the
// service name of later events: the processor built for a service reports exactly the service's
// name (whatever bytes it contains — dots, underscores), its configuration object and its hosts.
func VfC08_ProcIdentity() {
	RegisterBuilder(protocol.MySQL, vfBuilder{})
	names := []string{"s1", "cache.users", "a.b.c", "under_score", ".", "x."}
	name := names[nd.Concrete(nd.Choice("name", len(names)))]
	cfg := &service.Config{Protocol: protocol.MySQL}
	hs := []*host.Host{host.New("10.0.0.1:80")}
	nd.PanicLabel("proc.New")
	p, err := New(name, cfg, hs)
	nd.Assert(err == nil && p != nil, "a processor is built for a registered protocol")
	if err != nil || p == nil {
		return
	}
	nd.Assert(p.Name() == name, "the processor's name is the service name it was created for (the controller's table is keyed by it)")
	nd.Assert(p.Config() == cfg, "the processor holds the configuration object it was given")
	b := p.(*wrappedProc).Proc.(*vfBuilt)
	nd.Assert(len(b.p.Hosts) == 1 && b.p.Hosts[0] == hs[0], "the processor gets the hosts it was given")
	nd.Cover("built")
}
