//vf:pkg proc/redis
package redis

import (
	"io"

	nd "github.com/samaritan-proxy/samaritan/vfnd"
)

// vfEchoBackend is a backend connection double at byte level that understands the two request
// shapes of the harness: ASKING (16 bytes) is answered +OK or, when the node refuses it, with an
// error; GET kX (21 bytes) is answered with the bulk string "kX", so that every reply names the
// request it belongs to.
type vfEchoBackend struct {
	vfBackend
	buf        []byte
	out        []byte
	refuseAsk  bool
	askingSeen int
}

func (b *vfEchoBackend) Write(p []byte) (int, error) {
	b.buf = append(b.buf, p...)
	for {
		if len(b.buf) >= 16 && b.buf[1] == '1' {
			b.askingSeen++
			if b.refuseAsk {
				b.out = append(b.out, "-LOADING x\r\n"...)
			} else {
				b.out = append(b.out, "+OK\r\n"...)
			}
			b.buf = b.buf[16:]
		} else if len(b.buf) >= 21 && b.buf[1] == '2' {
			b.out = append(b.out, '$', '2', '\r', '\n', b.buf[17], b.buf[18], '\r', '\n')
			b.buf = b.buf[21:]
		} else {
			break
		}
	}
	return b.vfBackend.Write(p)
}

func (b *vfEchoBackend) Read(p []byte) (int, error) {
	for {
		if b.isClosed {
			return 0, io.EOF
		}
		if len(b.out) > 0 {
			n := copy(p, b.out)
			b.out = b.out[n:]
			return n, nil
		}
		select {
		case <-b.wake:
		case <-b.closed:
		}
	}
}

// VfC01_AskPairing: a request redirected with ASK and a request of another connection share the
// target node's backend connection. Whatever the node answers to ASKING (it may refuse it: still
// loading, not in cluster mode), every request gets the reply that belongs to it: the ASKING
// exchange never shifts the pairing of later replies.
func VfC01_AskPairing() {
	nd.ConcreteClock(true)
	a, b := "10.0.0.1:7000", "10.0.0.2:7000"
	u, clients := vfNewUpstream(nil, a, b)
	be := &vfEchoBackend{vfBackend: *vfNewBackend(), refuseAsk: nd.Bool("node-refuses-asking")}
	c := vfNewClient(be, 4)
	c.onRedirection = u.handleRedirection
	c.onClusterDown = u.handleClusterDown
	clients[b] = c
	u.clients.Store(clients)
	go c.Start()
	req1 := newSimpleRequest(newStringArray("get", "k1"))
	req2 := newSimpleRequest(newStringArray("get", "k2"))
	req3 := newSimpleRequest(newStringArray("get", "k3"))
	nd.PanicLabel("ask-pairing")
	if nd.Bool("other-request-first") {
		u.MakeRequestToHost(b, req2)
		u.handleRedirection(req1, newError("ASK 1 "+b))
	} else {
		u.handleRedirection(req1, newError("ASK 1 "+b))
		u.MakeRequestToHost(b, req2)
	}
	nd.Quiesce()
	u.MakeRequestToHost(b, req3) // later traffic of any connection
	nd.Quiesce()
	for i, r := range []*simpleRequest{req1, req2, req3} {
		nd.Assert(vfDone(r.done), "each request is answered")
		if !vfDone(r.done) {
			continue
		}
		want := []string{"k1", "k2", "k3"}[i]
		resp := r.Response()
		nd.Assert(resp.Type == BulkString && string(resp.Text) == want, "every request on a backend connection gets the reply that belongs to it, whatever the node answered to ASKING")
	}
	nd.Assert(be.askingSeen == 1, "ASKING was sent once")
	if be.refuseAsk {
		nd.Cover("asking-refused")
	}
	c.Stop()
}

// VfC02_AskDuringStop: a request redirected with ASK is handed to the target node's connection
// while that connection is being stopped (host removed or replaced, upstream stopping): whatever the interleaving, the redirected request is answered exactly once
// (by the node or with an error) - it is not lost between the ASKING exchange and its own turn.
func VfC02_AskDuringStop() {
	nd.ConcreteClock(true)
	a, b := "10.0.0.1:7000", "10.0.0.2:7000"
	u, clients := vfNewUpstream(nil, a, b)
	be := &vfEchoBackend{vfBackend: *vfNewBackend()}
	c := vfNewClient(be, nd.Concrete(nd.IntRange("queue-capacity", 1, 2)))
	c.onRedirection = u.handleRedirection
	c.onClusterDown = u.handleClusterDown
	clients[b] = c
	u.clients.Store(clients)
	started := false
	go func() { c.Start(); started = true }()
	req := newSimpleRequest(newStringArray("get", "k1"))
	nd.PanicLabel("ask-during-stop")
	go func() { u.handleRedirection(req, newError("ASK 1 "+b)) }()
	stopped := false
	go func() { c.Stop(); stopped = true }()
	nd.Quiesce()
	nd.Assert(stopped && started, "the connection stops")
	nd.Assert(vfDone(req.done), "a request redirected with ASK to a connection that is being stopped is answered (not lost between ASKING and its own turn)")
	nd.Cover("stopped-during-ask")
}
