//vf:pkg proc
package proc

import (
	"errors"
	"io"
	"net"
	"time"

	"github.com/samaritan-proxy/samaritan/pb/common"
	"github.com/samaritan-proxy/samaritan/pb/config/service"
	"github.com/samaritan-proxy/samaritan/proc/internal/log"
	"github.com/samaritan-proxy/samaritan/stats"

	nd "github.com/samaritan-proxy/samaritan/vfnd"
)

var vfErrClosed = errors.New("vf: use of closed network connection")

// vfLis is a listening-socket double: Accept hands out the queued connections, then blocks until
// the listener is closed.
type vfLis struct {
	queue  chan net.Conn
	closed chan struct{}
	isClosed bool
	tempErrs int // transient accept failures still to deliver (EMFILE-like: Temporary, not Timeout)
}

type vfTempErr struct{}

func (vfTempErr) Error() string   { return "accept: too many open files" }
func (vfTempErr) Temporary() bool { return true }
func (vfTempErr) Timeout() bool   { return false }

func (l *vfLis) Accept() (net.Conn, error) {
	if l.tempErrs > 0 && !l.isClosed {
		l.tempErrs--
		return nil, vfTempErr{}
	}
	if l.isClosed { // Accept on a closed socket fails, whatever is still queued
		return nil, vfErrClosed
	}
	select {
	case c := <-l.queue:
		return c, nil
	case <-l.closed:
		return nil, vfErrClosed
	}
}
func (l *vfLis) Close() error {
	if l.isClosed {
		return vfErrClosed // as a real listening socket: closing it again is an error
	}
	l.isClosed = true
	close(l.closed)
	return nil
}
func (l *vfLis) Addr() net.Addr { return &net.TCPAddr{Port: 1} }

// vfCliConn is a client connection double: Read blocks until the connection is closed.
type vfCliConn struct {
	closed   chan struct{}
	isClosed bool
}

func (c *vfCliConn) Read(p []byte) (int, error) {
	<-c.closed
	return 0, io.EOF
}
func (c *vfCliConn) Write(p []byte) (int, error) { return len(p), nil }
func (c *vfCliConn) Close() error {
	if !c.isClosed {
		c.isClosed = true
		close(c.closed)
	}
	return nil
}
func (c *vfCliConn) LocalAddr() net.Addr                { return &net.TCPAddr{Port: 1} }
func (c *vfCliConn) RemoteAddr() net.Addr               { return &net.TCPAddr{Port: 2} }
func (c *vfCliConn) SetDeadline(t time.Time) error      { return nil }
func (c *vfCliConn) SetReadDeadline(t time.Time) error  { return nil }
func (c *vfCliConn) SetWriteDeadline(t time.Time) error { return nil }

func vfNewListener(limit uint32, handler ConnHandlerFunc) *listener {
	return &listener{
		cfg:          &service.Listener{Address: &common.Address{Ip: "127.0.0.1", Port: 1}, ConnectionLimit: limit},
		Logger:       log.New("vf"),
		stats:        NewDownstreamStats(stats.CreateScope("vf.")),
		conns:        make(map[net.Conn]struct{}),
		connHandleFn: handler,
		drain:        make(chan struct{}),
		quit:         make(chan struct{}),
		done:         make(chan struct{}),
	}
}

// VfC09_ListenerStop: Stop returns — whether it is called before the port was bound, while
// binding is being retried, right after start or with connections active — and afterwards the
// listening socket and every downstream connection are closed and no goroutine of the listener
// remains; the connection statistics are conserved (C20.a).
func VfC09_ListenerStop() {
	nd.ConcreteClock(true)
	nd.LazyTimers(true) // Stop / Drain may arrive while the bind-retry timer is pending
	nconns := nd.Concrete(nd.IntRange("conns", 0, nd.Param("conns", 2)))
	lis := &vfLis{queue: make(chan net.Conn, 4), closed: make(chan struct{})}
	var conns []*vfCliConn
	for i := 0; i < nconns; i++ {
		c := &vfCliConn{closed: make(chan struct{})}
		conns = append(conns, c)
		lis.queue <- c
	}
	if nd.Bool("transient-accept-error") {
		lis.tempErrs = 1
	}
	bindFails := nd.Concrete(nd.IntRange("bind-failures", 0, 1))
	attempts := 0
	oldListen := defaultListenFunc
	defer func() { defaultListenFunc = oldListen }()
	defaultListenFunc = func(proto, addr string) (net.Listener, error) {
		attempts++
		if attempts <= bindFails {
			return nil, errors.New("vf: address already in use")
		}
		return lis, nil
	}
	handled := 0
	l := vfNewListener(0, func(conn net.Conn) {
		handled++
		buf := make([]byte, 1)
		conn.Read(buf) // serve until the connection goes away
	})
	if nd.Param("fields", 0) == 1 {
		nd.Watch(l) // Serve, Stop and Drain share plain fields of the listener (the bound socket)
	}
	stopped := false
	served := false
	drain := nd.Bool("drain-first")
	stopper := func() {
		if drain {
			l.Drain()
		}
		l.Stop()
		stopped = true
	}
	if nd.Bool("stop-first") { // natively steerable start order; the executor explores the rest
		go stopper()
		nd.Pause()
		go func() { l.Serve(); served = true }()
	} else {
		go func() { l.Serve(); served = true }()
		nd.Pause()
		go stopper()
	}
	nd.Quiesce()
	nd.Class("stop-before-serve-finished-binding", attempts <= bindFails)
	nd.Assert(stopped, "Stop returns")
	nd.Assert(served, "the serving goroutine ends")
	if stopped && served {
		nd.Cover("stopped")
		nd.Assert(attempts <= bindFails || lis.isClosed, "the listening socket is closed")
		for _, c := range conns {
			// a connection still in the accept queue was never handed to the proxy
			inQueue := false
			for i := 0; i < len(lis.queue); i++ {
				inQueue = true
			}
			nd.Assert(c.isClosed || inQueue || handled < len(conns), "every accepted downstream connection is closed")
		}
		nd.Assert(nd.AllFinished(), "no goroutine of the listener remains")
		d := l.stats
		nd.Class("open-at-stop-not-counted", true)
		nd.Assert(d.CxActive.Value() == 0, "downstream active-connection gauge is zero after stop")
		nd.Assert(d.CxTotal.Value() == d.CxDestroyTotal.Value(), "downstream total connections = destroyed connections after stop")
	}
}

// VfC17_Drain: "stop accepting new connections" (the hot-restart drain step) holds from the moment
// Drain returns: whether the listener was already serving or still retrying to bind its port
// (address in use by the old process), it accepts no connection afterwards, its listening socket
// is closed, connections that were being served are left alone, and a later Stop returns.
func VfC17_Drain() {
	nd.ConcreteClock(true)
	nd.LazyTimers(true) // the bind-retry timer may still be pending when Drain arrives
	lis := &vfLis{queue: make(chan net.Conn, 4), closed: make(chan struct{})}
	bindFails := nd.Concrete(nd.IntRange("bind-failures", 0, 2))
	attempts := 0
	oldListen := defaultListenFunc
	defer func() { defaultListenFunc = oldListen }()
	// the drain may also arrive while a bind call is in progress (the call that will succeed)
	duringBind := nd.Param("duringbind", 0) == 1
	bindEntered, bindRelease := make(chan struct{}, 1), make(chan struct{})
	defaultListenFunc = func(proto, addr string) (net.Listener, error) {
		attempts++
		if attempts <= bindFails {
			return nil, errors.New("vf: address already in use")
		}
		if duringBind && attempts == bindFails+1 {
			bindEntered <- struct{}{}
			<-bindRelease
		}
		return lis, nil
	}
	handled := 0
	l := vfNewListener(0, func(conn net.Conn) {
		handled++
		buf := make([]byte, 1)
		conn.Read(buf)
	})
	var early *vfCliConn
	if !duringBind && bindFails == 0 && nd.Bool("a-connection-is-being-served") {
		early = &vfCliConn{closed: make(chan struct{})}
		lis.queue <- early
	}
	served := false
	go func() { l.Serve(); served = true }()
	nd.PanicLabel("drain")
	nd.Quiesce() // serving, or waiting for the next bind attempt (the timer may have fired already)
	before := handled
	if duringBind {
		select {
		case <-bindEntered:
		default:
			nd.Assume(false) // only the schedules in which the successful bind call has begun
		}
		drained := false
		go func() { l.Drain(); drained = true }()
		nd.Quiesce()
		close(bindRelease) // the bind call returns the bound socket
		nd.Quiesce()
		nd.Assert(drained, "Drain returns")
		nd.Cover("drained-during-bind")
	} else {
		l.Drain()
	}
	late := &vfCliConn{closed: make(chan struct{})}
	if !lis.isClosed {
		lis.queue <- late // a client connects after the drain (a closed socket refuses it)
	}
	nd.Quiesce()
	if !lis.isClosed && attempts > bindFails {
		lis.queue <- late // ... or once the port got bound after all
		nd.Quiesce()
	}
	nd.Assert(handled == before, "no connection is accepted after Drain returned (also when the port was not bound yet)")
	nd.Assert(attempts <= bindFails || lis.isClosed, "the listening socket is closed by Drain")
	if early != nil {
		nd.Assert(!early.isClosed, "Drain leaves established connections alone")
		nd.Cover("drained-while-serving")
	}
	if bindFails > 0 {
		nd.Cover("drained-while-binding")
	}
	stopped := false
	go func() { l.Stop(); stopped = true }()
	nd.Quiesce()
	nd.Assert(stopped && served, "Stop returns after a drain and the serving goroutine ends")
	nd.Assert(handled == before, "no connection is accepted after Drain and Stop")
}

// VfC09_Limit: a connection is admitted exactly when the limit is 0 or fewer than `limit`
// connections are being served; the number served never exceeds the limit.
func VfC09_Limit() {
	nd.ConcreteClock(true)
	limit := uint32(nd.Concrete(nd.IntRange("limit", 0, 2)))
	l := vfNewListener(limit, nil)
	l.ln = &vfLis{queue: make(chan net.Conn, 1), closed: make(chan struct{})}
	var live []net.Conn
	nd.PanicLabel("conn-limit")
	for step := 0; step < nd.Param("steps", 4); step++ {
		if nd.Bool("arrive") {
			c := &vfCliConn{closed: make(chan struct{})}
			ok := l.addConn(c)
			nd.Assert(ok == (limit == 0 || uint32(len(live)) < limit), "a connection is admitted exactly when the limit is not reached")
			if ok {
				live = append(live, c)
			}
		} else if len(live) > 0 {
			l.removeConn(live[0])
			live = live[1:]
		}
		nd.Assert(limit == 0 || uint32(len(l.conns)) <= limit, "the number of served connections never exceeds the limit")
		nd.Assert(len(l.conns) == len(live) && l.stats.CxActive.Value() == uint64(len(live)), "the registry and the active gauge agree with the served connections")
	}
}

// VfC09_LimitConcurrent: two connections arriving at the same time at a listener that has room
// for one: exactly one is admitted (the limit check and the registration are one atomic step).
func VfC09_LimitConcurrent() {
	nd.ConcreteClock(true)
	l := vfNewListener(1, nil)
	l.ln = &vfLis{queue: make(chan net.Conn, 1), closed: make(chan struct{})}
	var ok [2]bool
	for i := 0; i < 2; i++ {
		i := i
		go func() { ok[i] = l.addConn(&vfCliConn{closed: make(chan struct{})}) }()
	}
	nd.Quiesce()
	nd.Assert(ok[0] != ok[1], "of two simultaneous arrivals at a listener with room for one, exactly one is admitted")
	nd.Assert(len(l.conns) == 1, "the number of served connections never exceeds the limit")
	nd.Cover("raced")
}

// VfC09_ServeAfterTransientError: a transient accept failure (file-descriptor exhaustion) does
// not end the service: connections arriving afterwards, under the limit, are still served; and a
// connection refused by the limit leaves the statistics consistent (C20).
func VfC09_ServeAfterTransientError() {
	nd.ConcreteClock(true)
	lis := &vfLis{queue: make(chan net.Conn, 4), closed: make(chan struct{}), tempErrs: nd.Concrete(nd.IntRange("transient-errors", 0, 2))}
	oldListen := defaultListenFunc
	defer func() { defaultListenFunc = oldListen }()
	defaultListenFunc = func(proto, addr string) (net.Listener, error) { return lis, nil }
	handled := 0
	l := vfNewListener(1, func(conn net.Conn) {
		handled++
		buf := make([]byte, 1)
		conn.Read(buf)
	})
	c1 := &vfCliConn{closed: make(chan struct{})}
	c2 := &vfCliConn{closed: make(chan struct{})}
	lis.queue <- c1
	go l.Serve()
	nd.Quiesce()
	nd.Assert(handled == 1 && !c1.isClosed, "a connection under the limit is served, also after transient accept failures")
	lis.queue <- c2 // over the limit of 1
	nd.Quiesce()
	nd.Assert(c2.isClosed && handled == 1, "a connection over the limit is closed, not served")
	d := l.stats
	nd.Assert(d.CxActive.Value() == 1 && d.CxTotal.Value() == 1 && d.CxDestroyTotal.Value() == 0 && d.CxRestricted.Value() == 1,
		"a connection refused by the limit is counted as restricted only (active, total and destroyed unaffected)")
	c1.Close()
	nd.Quiesce()
	nd.Assert(d.CxActive.Value() == 0 && d.CxTotal.Value() == d.CxDestroyTotal.Value(), "gauges return to zero when the served connection ends")
	stopped := false
	go func() { l.Stop(); stopped = true }()
	nd.Quiesce()
	nd.Assert(stopped, "Stop returns")
	nd.Cover("served-and-stopped")
}
