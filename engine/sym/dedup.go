package sym

import (
	"crypto/sha1"
	"fmt"
	"hash"
	"sort"

	"vf/smt"
)

// State de-duplication for schedule exploration: at every scheduling decision the state (threads,
// reachable heap, path condition, remaining budgets) is serialised in a canonical form — overlay
// objects are numbered in the order a fixed traversal discovers them, so that two interleavings
// that allocate in a different order but reach the same configuration get the same digest — and a
// state whose digest was seen before is not explored again (its continuations are identical).

type canon struct {
	e    *Engine
	st   *State
	h    hash.Hash
	ids  map[int]int
	todo []int
	ok   bool
}

func (c *canon) w(s string) { c.h.Write([]byte(s)); c.h.Write([]byte{0}) }

func (c *canon) objRef(id int) string {
	if id == 0 {
		return "nil"
	}
	if id < 1<<40 {
		// base object: process-global id; its overlay copy (if any) is still traversed
		if _, seen := c.ids[id]; !seen {
			c.ids[id] = -id
			if _, ov := c.st.heap[id]; ov {
				c.todo = append(c.todo, id)
			}
		}
		return fmt.Sprintf("b%d", id)
	}
	n, seen := c.ids[id]
	if !seen {
		n = len(c.ids) + 1
		c.ids[id] = n
		c.todo = append(c.todo, id)
	}
	return fmt.Sprintf("o%d", n)
}

func (c *canon) val(v Value) {
	switch x := v.(type) {
	case nil:
		c.w("_")
	case *smt.Term:
		c.w(fmt.Sprintf("t%d", x.ID))
	case Ptr:
		c.w("P" + c.objRef(x.Obj) + fmt.Sprintf("+%d", x.Off))
		for _, s := range x.Sym {
			c.w(fmt.Sprintf("s%d*%d<%d", s.Idx.ID, s.Stride, s.N))
		}
	case Slice:
		c.w("S" + c.objRef(x.Obj) + fmt.Sprintf("@%d/%d/%d:%d:%d:%d", x.Base, x.Stride, x.ArrLen, tid(x.Off), tid(x.Len), tid(x.Cap)))
	case Str:
		if x.IsConst {
			c.w("C" + x.S)
		} else {
			c.w("D" + c.objRef(x.Sl.Obj) + fmt.Sprintf("@%d/%d:%d:%d", x.Sl.Base, x.Sl.ArrLen, tid(x.Sl.Off), tid(x.Sl.Len)))
		}
	case Struct:
		c.w("{")
		for _, f := range x.F {
			c.val(f)
		}
		c.w("}")
	case Arr:
		c.w("[")
		for _, f := range x.E {
			c.val(f)
		}
		c.w("]")
	case Tuple:
		c.w("(")
		for _, f := range x.V {
			c.val(f)
		}
		c.w(")")
	case Iface:
		if x.T == nil {
			c.w("I0")
		} else {
			c.w("I" + x.T.String())
			c.val(x.V)
		}
	case Func:
		switch {
		case x.Fn != nil:
			c.w(fmt.Sprintf("F%p", x.Fn))
			for _, b := range x.Bind {
				c.val(b)
			}
			c.w(";")
		case x.B != nil:
			c.w("B" + x.B.Name())
		default:
			c.w("F0")
		}
	case MapV:
		c.w("M" + c.objRef(x.Obj))
	case ChanV:
		c.w("H" + c.objRef(x.Obj))
	case Float:
		c.w(fmt.Sprintf("f%v", x.F))
	default:
		c.ok = false
	}
}

func tid(t *smt.Term) int {
	if t == nil {
		return -1
	}
	return t.ID
}

func (c *canon) object(id int) {
	o := c.e.obj(c.st, id)
	if o == nil {
		c.w("?")
		return
	}
	c.w(fmt.Sprintf("O%s k%d n%d cap%d cl%v", c.objRef(id), o.Kind, len(o.Cells), o.ChCap, o.Closed))
	for _, v := range o.Cells {
		c.val(v)
	}
	for _, en := range o.Ent {
		if en.Deleted {
			c.w("x")
			continue
		}
		c.val(en.K)
		c.val(en.V)
	}
	for _, v := range o.Buf {
		c.val(v)
	}
	if len(o.Aux) > 0 {
		keys := make([]string, 0, len(o.Aux))
		for k := range o.Aux {
			keys = append(keys, k)
		}
		sort.Strings(keys)
		for _, k := range keys {
			c.w("a" + k)
			c.val(o.Aux[k])
		}
	}
	for _, s := range o.SymSt {
		c.w(fmt.Sprintf("y%d/%d/%d/%d", s.Off, s.Stride, s.N, s.Idx.ID))
		for _, v := range s.Vals {
			c.val(v)
		}
	}
}

// digest returns a canonical digest of the state, or ok=false when the state holds something that
// cannot be serialised (then it is simply explored).
func (e *Engine) digest(st *State) (string, bool) {
	c := &canon{e: e, st: st, h: sha1.New(), ids: map[int]int{}, ok: true}
	c.w(fmt.Sprintf("wa%v lt%v", st.WatchAll, st.LazyTimers))
	c.w(fmt.Sprintf("cur%d pre%d tf%d pool%v va%v cc%v ct%d", st.Cur, st.Preempts, st.TimerFired, st.PoolReuse, st.VisibleAtomics, st.ConcreteClock, st.ClockTick))
	for _, w := range st.Watched {
		c.w("W" + c.objRef(w))
	}
	for _, th := range st.Threads {
		c.w(fmt.Sprintf("T%d s%d %s w%d p%v y%v q%v", th.ID, th.Status, th.BlockWhy, th.WaitRecv, th.Panicking, th.Yielded, th.Quiesced) + fmt.Sprintf("tw%v tk%v", th.TimerWait, th.TimerKick))
		if th.WaitRecv != 0 {
			c.w(c.objRef(th.WaitRecv))
		}
		for _, fr := range th.Frames {
			if fr.native != nil {
				return "", false
			}
			pi := -1
			if fr.Prev != nil {
				pi = fr.Prev.Index
			}
			c.w(fmt.Sprintf("f%p b%d i%d p%d r%v", fr.Fn, fr.Block.Index, fr.Idx, pi, fr.recovering))
			for _, r := range fr.Regs {
				c.val(r)
			}
			for _, d := range fr.Defers {
				c.w("d")
				c.val(d.fn)
				for _, a := range d.args {
					c.val(a)
				}
			}
		}
	}
	// overlay copies of base objects (globals written by this path)
	var baseIDs []int
	for id := range st.heap {
		if id < 1<<40 {
			baseIDs = append(baseIDs, id)
		}
	}
	sort.Ints(baseIDs)
	for _, id := range baseIDs {
		c.objRef(id)
	}
	for len(c.todo) > 0 {
		id := c.todo[0]
		c.todo = c.todo[1:]
		c.object(id)
	}
	pc := make([]int, 0, len(st.PC))
	for _, t := range st.PC {
		pc = append(pc, t.ID)
	}
	sort.Ints(pc)
	c.w(fmt.Sprint(pc))
	keys := make([]string, 0, len(st.ndCount))
	for k, v := range st.ndCount {
		keys = append(keys, fmt.Sprintf("%s=%d", k, v))
	}
	sort.Strings(keys)
	c.w(fmt.Sprint(keys))
	cov := make([]string, 0, len(st.Covers))
	for k := range st.Covers {
		cov = append(cov, k)
	}
	sort.Strings(cov)
	c.w(fmt.Sprint(cov))
	for _, cl := range st.Classes {
		c.w(fmt.Sprintf("c%s%d", cl.Label, cl.Cond.ID))
	}
	if !c.ok {
		return "", false
	}
	return string(c.h.Sum(nil)), true
}
