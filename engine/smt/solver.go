package smt

import (
	"bufio"
	"fmt"
	"io"
	"os"
	"os/exec"
	"strconv"
	"strings"
	"time"
)

type Result int

const (
	Unsat Result = iota
	Sat
	Unknown
)

func (r Result) String() string { return [...]string{"unsat", "sat", "unknown"}[r] }

// Solver drives one persistent SMT solver process over stdin/stdout.
type Solver struct {
	Bin     []string
	cmd     *exec.Cmd
	in      io.WriteCloser
	out     *bufio.Reader
	emitted []bool
	ctx     *Ctx
	// incremental path-condition stack: one push level per asserted conjunct
	stack    []*Term
	defsAt   [][]int // term ids defined at each level (index = level)
	Log     io.Writer // optional transcript
	// statistics
	NSat, NUnsat, NUnknown int
	Time                   time.Duration
	Errors                 []string
	timeoutMs              int
}

func NewSolver(ctx *Ctx, bin []string, timeoutMs int) (*Solver, error) {
	s := &Solver{Bin: bin, ctx: ctx, timeoutMs: timeoutMs}
	if err := s.start(); err != nil {
		return nil, err
	}
	return s, nil
}

func (s *Solver) start() error {
	s.cmd = exec.Command(s.Bin[0], s.Bin[1:]...)
	var err error
	if s.in, err = s.cmd.StdinPipe(); err != nil {
		return err
	}
	op, err := s.cmd.StdoutPipe()
	if err != nil {
		return err
	}
	s.cmd.Stderr = os.Stderr
	s.out = bufio.NewReaderSize(op, 1<<20)
	if err := s.cmd.Start(); err != nil {
		return err
	}
	s.emitted = nil
	s.stack = nil
	s.defsAt = [][]int{nil}
	s.send("(set-option :print-success false)")
	if s.timeoutMs > 0 && strings.Contains(s.Bin[0], "z3") {
		s.send(fmt.Sprintf("(set-option :timeout %d)", s.timeoutMs))
	}
	return nil
}

// Restart replaces the solver process by a fresh one with the given timeout (the term DAG is
// re-emitted on demand). Used to ask a query again that came back unknown: a fresh process with
// more time often decides what a long-lived one under load did not.
func (s *Solver) Restart(timeoutMs int) {
	s.Close()
	s.timeoutMs = timeoutMs
	s.start()
}

func (s *Solver) TimeoutMs() int { return s.timeoutMs }

func (s *Solver) Close() {
	if s.cmd != nil {
		s.in.Close()
		s.cmd.Process.Kill()
		s.cmd.Wait()
		s.cmd = nil
	}
}

func (s *Solver) send(line string) {
	if s.Log != nil {
		fmt.Fprintln(s.Log, line)
	}
	io.WriteString(s.in, line)
	io.WriteString(s.in, "\n")
}

type lineRes struct {
	l   string
	err error
}

// readLine reads one line with a watchdog: a solver that does not honour its own timeout is killed.
func (s *Solver) readLine() (string, error) {
	ch := make(chan lineRes, 1)
	out := s.out
	go func() {
		l, err := out.ReadString('\n')
		ch <- lineRes{l, err}
	}()
	limit := time.Duration(s.timeoutMs)*time.Millisecond + 10*time.Second
	if s.timeoutMs <= 0 {
		limit = 10 * time.Minute
	}
	select {
	case r := <-ch:
		l := strings.TrimSpace(r.l)
		if s.Log != nil {
			fmt.Fprintln(s.Log, "; <- "+l)
		}
		return l, r.err
	case <-time.After(limit):
		if s.cmd != nil && s.cmd.Process != nil {
			s.cmd.Process.Kill()
		}
		<-ch
		return "", fmt.Errorf("solver watchdog: no answer within %v", limit)
	}
}

// define makes sure t and everything below it has been declared/defined at level 0.
func (s *Solver) define(t *Term) {
	if t.ID < len(s.emitted) && s.emitted[t.ID] {
		return
	}
	type fr struct {
		t *Term
		i int
	}
	stack := []fr{{t, 0}}
	for len(stack) > 0 {
		f := &stack[len(stack)-1]
		if f.t.ID < len(s.emitted) && s.emitted[f.t.ID] {
			stack = stack[:len(stack)-1]
			continue
		}
		if f.i < f.t.N {
			a := f.t.Args[f.i]
			f.i++
			if !(a.ID < len(s.emitted) && s.emitted[a.ID]) {
				stack = append(stack, fr{a, 0})
			}
			continue
		}
		tt := f.t
		for tt.ID >= len(s.emitted) {
			s.emitted = append(s.emitted, make([]bool, len(s.emitted)+1024)...)
		}
		s.emitted[tt.ID] = true
		if tt.Op != OpConst {
			lv := len(s.defsAt) - 1
			s.defsAt[lv] = append(s.defsAt[lv], tt.ID)
		}
		switch tt.Op {
		case OpConst:
		case OpVar:
			s.send(fmt.Sprintf("(declare-const %s %s)", tt.Ref(), sortStr(tt.W)))
		default:
			s.send(fmt.Sprintf("(define-fun %s () %s %s)", tt.Ref(), sortStr(tt.W), tt.Body()))
		}
		stack = stack[:len(stack)-1]
	}
}

func (s *Solver) pushLevel() {
	s.send("(push 1)")
	s.defsAt = append(s.defsAt, nil)
}

func (s *Solver) popLevels(n int) {
	if n <= 0 {
		return
	}
	s.send(fmt.Sprintf("(pop %d)", n))
	for i := 0; i < n; i++ {
		lv := len(s.defsAt) - 1
		for _, id := range s.defsAt[lv] {
			s.emitted[id] = false
		}
		s.defsAt = s.defsAt[:lv]
	}
}

// CheckPC decides pc ∧ extra, keeping pc on the solver's assertion stack between calls so that
// successive queries along one path (and its neighbours) are solved incrementally.
func (s *Solver) CheckPC(pc []*Term, extra *Term, vars []*Term) (Result, map[string]uint64) {
	t0 := time.Now()
	defer func() { s.Time += time.Since(t0) }()
	if extra != nil && extra.IsFalse() {
		s.NUnsat++
		return Unsat, nil
	}
	// common prefix
	k := 0
	for k < len(pc) && k < len(s.stack) && pc[k] == s.stack[k] {
		k++
	}
	s.popLevels(len(s.stack) - k)
	s.stack = s.stack[:k]
	for _, t := range pc[k:] {
		s.pushLevel()
		if t.IsFalse() {
			s.send("(assert false)")
		} else if !t.IsTrue() {
			s.define(t)
			s.send("(assert " + t.Ref() + ")")
		}
		s.stack = append(s.stack, t)
	}
	s.pushLevel()
	if extra != nil && !extra.IsTrue() {
		s.define(extra)
		s.send("(assert " + extra.Ref() + ")")
	}
	for _, v := range vars {
		s.define(v)
	}
	res, model := s.finishCheck(vars)
	if s.cmd != nil && len(s.defsAt) > 1 {
		s.popLevels(1)
	}
	return res, model
}

func (s *Solver) finishCheck(vars []*Term) (Result, map[string]uint64) {
	s.send("(check-sat)")
	line, err := s.readLine()
	for err == nil && line == "" {
		line, err = s.readLine()
	}
	res := Unknown
	var model map[string]uint64
	switch {
	case err != nil:
		s.Errors = append(s.Errors, "solver died: "+err.Error())
		s.Close()
		s.start()
		s.NUnknown++
		return Unknown, nil
	case line == "sat":
		res = Sat
	case line == "unsat":
		res = Unsat
	case line == "unknown" || line == "timeout":
		res = Unknown
	default:
		s.Errors = append(s.Errors, line)
		res = Unknown
	}
	if res == Sat && len(vars) > 0 {
		model = s.getValues(vars)
	}
	switch res {
	case Sat:
		s.NSat++
	case Unsat:
		s.NUnsat++
	default:
		s.NUnknown++
	}
	return res, model
}

// Check decides satisfiability of the conjunction. If sat and vars != nil, returns their values.
func (s *Solver) Check(assertions []*Term, vars []*Term) (Result, map[string]uint64) {
	t0 := time.Now()
	defer func() { s.Time += time.Since(t0) }()
	for _, a := range assertions {
		if a.IsFalse() {
			s.NUnsat++
			return Unsat, nil
		}
	}
	for _, a := range assertions {
		s.define(a)
	}
	for _, v := range vars {
		s.define(v)
	}
	// drop the incremental path-condition stack: this query is independent of it
	s.popLevels(len(s.stack))
	s.stack = s.stack[:0]
	for _, a := range assertions {
		s.define(a)
	}
	for _, v := range vars {
		s.define(v)
	}
	s.pushLevel()
	for _, a := range assertions {
		if a.IsTrue() {
			continue
		}
		s.send("(assert " + a.Ref() + ")")
	}
	s.send("(check-sat)")
	line, err := s.readLine()
	for err == nil && line == "" {
		line, err = s.readLine()
	}
	res := Unknown
	var model map[string]uint64
	switch {
	case err != nil:
		s.Errors = append(s.Errors, "solver died: "+err.Error())
		s.Close()
		s.start()
		s.NUnknown++
		return Unknown, nil
	case line == "sat":
		res = Sat
	case line == "unsat":
		res = Unsat
	case line == "unknown" || line == "timeout":
		res = Unknown
	default:
		s.Errors = append(s.Errors, line)
		res = Unknown
	}
	if res == Sat && len(vars) > 0 {
		model = s.getValues(vars)
	}
	s.popLevels(1)
	switch res {
	case Sat:
		s.NSat++
	case Unsat:
		s.NUnsat++
	default:
		s.NUnknown++
	}
	return res, model
}

func (s *Solver) getValues(vars []*Term) map[string]uint64 {
	model := map[string]uint64{}
	const chunk = 200
	for i := 0; i < len(vars); i += chunk {
		j := i + chunk
		if j > len(vars) {
			j = len(vars)
		}
		var sb strings.Builder
		sb.WriteString("(get-value (")
		for _, v := range vars[i:j] {
			sb.WriteString(v.Ref())
			sb.WriteByte(' ')
		}
		sb.WriteString("))")
		s.send(sb.String())
		// read a balanced s-expression
		text := s.readSexp()
		parseValues(text, model)
	}
	return model
}

func (s *Solver) readSexp() string {
	var sb strings.Builder
	depth := 0
	started := false
	for {
		l, err := s.readLine()
		if err != nil {
			break
		}
		sb.WriteString(l)
		sb.WriteByte(' ')
		inBar := false
		for _, ch := range l {
			if ch == '|' {
				inBar = !inBar
			}
			if inBar {
				continue
			}
			if ch == '(' {
				depth++
				started = true
			} else if ch == ')' {
				depth--
			}
		}
		if started && depth <= 0 {
			break
		}
	}
	return sb.String()
}

// parseValues parses "((|a| #x0f) (|b| true) (|c| (_ bv3 8)))".
func parseValues(text string, model map[string]uint64) {
	i := 0
	n := len(text)
	skip := func() {
		for i < n && (text[i] == ' ' || text[i] == '\n' || text[i] == '\t') {
			i++
		}
	}
	skip()
	if i < n && text[i] == '(' {
		i++
	}
	for {
		skip()
		if i >= n || text[i] != '(' {
			return
		}
		i++
		skip()
		var name string
		if text[i] == '|' {
			j := strings.IndexByte(text[i+1:], '|')
			name = text[i+1 : i+1+j]
			i += j + 2
		} else {
			j := i
			for j < n && text[j] != ' ' {
				j++
			}
			name = text[i:j]
			i = j
		}
		skip()
		var val uint64
		switch {
		case strings.HasPrefix(text[i:], "#x"):
			j := i + 2
			for j < n && text[j] != ')' && text[j] != ' ' {
				j++
			}
			val, _ = strconv.ParseUint(text[i+2:j], 16, 64)
			i = j
		case strings.HasPrefix(text[i:], "#b"):
			j := i + 2
			for j < n && text[j] != ')' && text[j] != ' ' {
				j++
			}
			val, _ = strconv.ParseUint(text[i+2:j], 2, 64)
			i = j
		case strings.HasPrefix(text[i:], "true"):
			val = 1
			i += 4
		case strings.HasPrefix(text[i:], "false"):
			val = 0
			i += 5
		case strings.HasPrefix(text[i:], "(_ bv"):
			j := i + 5
			k := j
			for k < n && text[k] != ' ' {
				k++
			}
			val, _ = strconv.ParseUint(text[j:k], 10, 64)
			for k < n && text[k] != ')' {
				k++
			}
			i = k + 1
		}
		model[name] = val
		skip()
		if i < n && text[i] == ')' {
			i++
		}
	}
}

// Dump writes a stand-alone SMT-LIB2 script deciding the conjunction (for cross-checking
// with other solvers).
func Dump(w io.Writer, assertions []*Term) {
	seen := map[int]bool{}
	var order []*Term
	var visit func(t *Term)
	// iterative
	visit = func(root *Term) {
		type fr struct {
			t *Term
			i int
		}
		stack := []fr{{root, 0}}
		for len(stack) > 0 {
			f := &stack[len(stack)-1]
			if seen[f.t.ID] {
				stack = stack[:len(stack)-1]
				continue
			}
			if f.i < f.t.N {
				a := f.t.Args[f.i]
				f.i++
				if !seen[a.ID] {
					stack = append(stack, fr{a, 0})
				}
				continue
			}
			seen[f.t.ID] = true
			order = append(order, f.t)
			stack = stack[:len(stack)-1]
		}
	}
	for _, a := range assertions {
		visit(a)
	}
	fmt.Fprintln(w, "(set-logic QF_BV)")
	for _, t := range order {
		switch t.Op {
		case OpConst:
		case OpVar:
			fmt.Fprintf(w, "(declare-const %s %s)\n", t.Ref(), sortStr(t.W))
		default:
			fmt.Fprintf(w, "(define-fun %s () %s %s)\n", t.Ref(), sortStr(t.W), t.Body())
		}
	}
	for _, a := range assertions {
		fmt.Fprintf(w, "(assert %s)\n", a.Ref())
	}
	fmt.Fprintln(w, "(check-sat)")
}

// RunScript runs a stand-alone solver on a script file and returns the first verdict line.
func RunScript(bin []string, path string, timeout time.Duration) (string, error) {
	args := append(append([]string{}, bin[1:]...), path)
	cmd := exec.Command(bin[0], args...)
	done := make(chan struct{})
	var out []byte
	var err error
	go func() { out, err = cmd.CombinedOutput(); close(done) }()
	select {
	case <-done:
	case <-time.After(timeout):
		cmd.Process.Kill()
		<-done
		return "timeout", nil
	}
	txt := string(out)
	if strings.Contains(txt, "(error") {
		return "error: " + strings.TrimSpace(txt), nil
	}
	for _, l := range strings.Split(txt, "\n") {
		l = strings.TrimSpace(l)
		if l == "sat" || l == "unsat" || l == "unknown" {
			return l, nil
		}
	}
	return "error: " + strings.TrimSpace(txt), err
}
