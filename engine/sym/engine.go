package sym

import (
	"fmt"
	"go/token"
	"os"
	"sort"
	"strings"
	"time"

	"golang.org/x/tools/go/packages"
	"golang.org/x/tools/go/ssa"
	"golang.org/x/tools/go/ssa/ssautil"
	"vf/smt"
)

const NDPkg = "github.com/samaritan-proxy/samaritan/vfnd"

type Options struct {
	MaxSymBranch  int // symbolic decisions per path (unwind bound proxy)
	MaxBlockVisit int // visits of one block inside one frame activation decided symbolically
	MaxSteps      int // instructions per path
	MaxDepth      int // call depth
	MaxPaths      int
	MaxConc       int // max values when concretising a term
	Preempt       int // schedule exploration: allowed pre-emptions (-1 = run-until-block only)
	TimeoutMs     int
	Verbose       int
	SolverBin     []string
	StopAtFirst   bool
	WallLimit         time.Duration // give up exploring after this long (0: never)
	GraceAfterFinding time.Duration // stop exploring this long after the first finding that is not a listed one (0: never)
	Params        map[string]int
	Known         map[string][]string // obligation label -> known-finding class labels
	DumpDir       string
	DumpMax       int
	Dedup         bool // merge identical states reached on different schedules (costly: off by default)
}

func DefaultOptions() Options {
	return Options{MaxSymBranch: 400, MaxBlockVisit: 64, MaxSteps: 4_000_000, MaxDepth: 120, MaxPaths: 200000,
		MaxConc: 300, Preempt: -1, TimeoutMs: 60000, SolverBin: []string{"z3-new", "-in"}}
}

type fnInfo struct {
	idx  map[ssa.Value]int
	n    int
	name string
}

// Finding is a satisfiable negated obligation (or reachable panic).
type Finding struct {
	Kind   string // "assert", "panic", "deadlock"
	Label  string
	Msg    string
	Pos    string
	Model  map[string]uint64
	Vars   []NDVar
	Notes  map[string]uint64
	Class  string
	Known  bool
	Trace  []string
	Sched  []int
	Stack  []string
}

type Obligation struct {
	Label      string
	Pos        string
	Discharged int // paths on which it was proved (unsat or constant true)
	Trivial    int // of which constant-true
	Failed     int
	Unknown    int
}

type Result struct {
	Harness     string
	Paths       int
	PathsEnded  map[string]int
	Findings    []*Finding `json:"-"`
	Obligations map[string]*Obligation
	Covers      map[string]int
	Unwinds     []string
	Unsupported []string
	Functions   map[string]int // functions executed from SSA -> instruction count
	Stubs       map[string]int // intrinsics hit
	Steps       int
	TrivialChecks int
	Merged        int
	NSat, NUnsat, NUnknown int
	SolverTime  time.Duration
	Wall        time.Duration
	Assumed     map[string]int
	Params      map[string]int
	SolverErrors []string
	StoppedEarly string // set when the exploration was cut short after a counterexample (Options.GraceAfterFinding)
}

type Engine struct {
	C     *smt.Ctx
	S     *smt.Solver
	L     *Layouts
	Opt   Options
	Prog  *ssa.Program
	Pkgs  []*packages.Package
	Fset  *token.FileSet
	infos map[*ssa.Function]*fnInfo
	// base heap: globals and what package initialisers build
	base      map[int]*Object
	nextBase  int
	globals   map[*ssa.Global]int
	inited    map[*ssa.Package]bool
	initMode  bool
	initDepth int
	intr      map[string]Intrinsic
	constStr  map[string]int
	res       *Result
	work      []*State
	typeIDs   map[string]int
	hooks     map[string]Value // harness-registered replacements (nd.Replace)
	funcByName map[string]*ssa.Function
	dumped, dumpSeen int
	curTimerFires    int
	unknownRetries   int
	seen             map[string]bool
}

type abort struct {
	kind string // "unsupported", "infeasible", "unwind", "done", "steps"
	msg  string
}

func (e *Engine) unsupported(format string, a ...interface{}) {
	panic(abort{"unsupported", fmt.Sprintf(format, a...)})
}

// Load builds SSA for the given package patterns in dir with an overlay.
func Load(dir string, overlay map[string][]byte, tags string, patterns ...string) (*ssa.Program, []*packages.Package, error) {
	cfg := &packages.Config{
		Mode:    packages.LoadAllSyntax,
		Dir:     dir,
		Overlay: overlay,
		Env:     append(os.Environ(), "GOFLAGS=-mod=mod", "GOPROXY=off", "GOSUMDB=off", "GOTOOLCHAIN=local"),
	}
	if tags != "" {
		cfg.BuildFlags = []string{"-tags", tags}
	}
	pkgs, err := packages.Load(cfg, patterns...)
	if err != nil {
		return nil, nil, err
	}
	var errs []string
	packages.Visit(pkgs, nil, func(p *packages.Package) {
		for _, e := range p.Errors {
			errs = append(errs, e.Error())
		}
	})
	if len(errs) > 0 {
		if len(errs) > 10 {
			errs = errs[:10]
		}
		return nil, nil, fmt.Errorf("load errors:\n%s", strings.Join(errs, "\n"))
	}
	prog, _ := ssautil.AllPackages(pkgs, ssa.InstantiateGenerics)
	prog.Build()
	return prog, pkgs, nil
}

func New(prog *ssa.Program, pkgs []*packages.Package, opt Options) (*Engine, error) {
	e := &Engine{C: smt.NewCtx(), L: newLayouts(), Opt: opt, Prog: prog, Pkgs: pkgs,
		infos: map[*ssa.Function]*fnInfo{}, base: map[int]*Object{}, globals: map[*ssa.Global]int{},
		inited: map[*ssa.Package]bool{}, constStr: map[string]int{}, typeIDs: map[string]int{},
		hooks: map[string]Value{}}
	e.Fset = prog.Fset
	s, err := smt.NewSolver(e.C, opt.SolverBin, opt.TimeoutMs)
	if err != nil {
		return nil, err
	}
	e.S = s
	e.intr = map[string]Intrinsic{}
	registerIntrinsics(e)
	// library functions built on reflection are run from models written in Go (vfnd/nd.go) whose
	// only non-Go parts are two intrinsics (length of / swap within a slice held in an interface)
	if nd := prog.ImportedPackage(NDPkg); nd != nil {
		for lib, model := range map[string]string{"sort.SliceStable": "ModelSortSliceStable", "sort.Slice": "ModelSortSliceStable",
			"sort.SliceIsSorted": "ModelSliceIsSorted", "time.AfterFunc": "ModelAfterFunc"} {
			if f := nd.Func(model); f != nil {
				e.hooks[lib] = Func{Fn: f}
			}
		}
	}
	return e, nil
}

func (e *Engine) Close() { e.S.Close() }

func (e *Engine) info(fn *ssa.Function) *fnInfo {
	if fi, ok := e.infos[fn]; ok {
		return fi
	}
	fi := &fnInfo{idx: map[ssa.Value]int{}, name: fn.String()}
	for _, p := range fn.Params {
		fi.idx[p] = fi.n
		fi.n++
	}
	for _, p := range fn.FreeVars {
		fi.idx[p] = fi.n
		fi.n++
	}
	for _, b := range fn.Blocks {
		for _, in := range b.Instrs {
			if v, ok := in.(ssa.Value); ok {
				fi.idx[v] = fi.n
				fi.n++
			}
		}
	}
	e.infos[fn] = fi
	return fi
}

func (e *Engine) pos(p token.Pos) string {
	if !p.IsValid() {
		return "?"
	}
	ps := e.Fset.Position(p)
	f := ps.Filename
	if i := strings.Index(f, "/repo/"); i >= 0 {
		f = f[i+6:]
	} else if d := os.Getenv("VF_REPO"); d != "" && strings.HasPrefix(f, d+"/") {
		f = f[len(d)+1:]
	} else if i := strings.LastIndex(f, "/src/"); i >= 0 {
		f = f[i+5:]
	}
	return fmt.Sprintf("%s:%d", f, ps.Line)
}

func (e *Engine) instrPos(st *State) string {
	th := st.thread()
	for i := len(th.Frames) - 1; i >= 0; i-- {
		fr := th.Frames[i]
		if fr.Block == nil || fr.Idx >= len(fr.Block.Instrs) {
			continue
		}
		p := fr.Block.Instrs[fr.Idx].Pos()
		if p.IsValid() {
			return e.pos(p)
		}
		// search backwards in block for a position
		for j := fr.Idx; j >= 0; j-- {
			if q := fr.Block.Instrs[j].Pos(); q.IsValid() {
				return e.pos(q)
			}
		}
	}
	return "?"
}

func (e *Engine) stack(st *State) []string {
	var out []string
	th := st.thread()
	for i := len(th.Frames) - 1; i >= 0 && len(out) < 12; i-- {
		fr := th.Frames[i]
		p := "?"
		if fr.Block != nil && fr.Idx < len(fr.Block.Instrs) {
			for j := fr.Idx; j >= 0; j-- {
				if q := fr.Block.Instrs[j].Pos(); q.IsValid() {
					p = e.pos(q)
					break
				}
			}
		}
		out = append(out, fr.Fn.String()+" "+p)
	}
	return out
}

// FindFunc finds a package-level function by package path suffix and name.
func (e *Engine) FindFunc(pkgPath, name string) *ssa.Function {
	for _, p := range e.Prog.AllPackages() {
		if p.Pkg.Path() == pkgPath {
			if f := p.Func(name); f != nil {
				return f
			}
		}
	}
	return nil
}

// ---------- solver interface ----------

func (e *Engine) allVars(st *State) []*smt.Term {
	vs := make([]*smt.Term, len(st.Vars))
	for i, v := range st.Vars {
		vs[i] = v.T
	}
	return vs
}

// feasible decides whether PC ∧ extra is satisfiable; updates st.Model on sat when adopt is true.
func (e *Engine) check(st *State, extra *smt.Term, wantModel bool) (smt.Result, map[string]uint64) {
	if extra.IsFalse() {
		return smt.Unsat, nil
	}
	var vars []*smt.Term
	if wantModel && len(st.Vars) <= 6000 {
		vars = e.allVars(st)
		if vars == nil {
			vars = []*smt.Term{}
		}
	}
	var r smt.Result
	var m map[string]uint64
	if !Inc {
		r, m = e.S.Check(dedupe(append(append([]*smt.Term(nil), st.PC...), extra)), vars)
	} else {
		r, m = e.S.CheckPC(st.PC, extra, vars)
	}
	if r == smt.Unknown && e.unknownRetries < 8 {
		// once more in a fresh solver process with three times the time; only a second unknown counts
		e.unknownRetries++
		old := e.S.TimeoutMs()
		e.S.Restart(3 * old)
		e.S.NUnknown--
		r, m = e.S.Check(dedupe(append(append([]*smt.Term(nil), st.PC...), extra)), vars)
		e.S.Restart(old)
	}
	if r == smt.Sat && vars == nil {
		m = nil
	}
	if r == smt.Sat && wantModel && vars != nil && m == nil {
		m = map[string]uint64{}
	}
	return r, m
}

func (e *Engine) evalModel(st *State, t *smt.Term) (uint64, bool) {
	if st.Model == nil {
		return 0, false
	}
	return smt.Eval(t, st.Model, map[int]uint64{}), true
}

func (e *Engine) addPC(st *State, t *smt.Term) {
	if t.IsTrue() {
		return
	}
	e.assertPC(st, t)
	if st.Model != nil {
		if v, _ := e.evalModel(st, t); v != 1 {
			st.Model = nil
		}
	}
}

// choose picks one of the alternatives (guards need not be exclusive, but should be exhaustive
// for soundness); forks the state for every other feasible alternative. The fork re-executes the
// current instruction and replays the decisions made so far.
func (e *Engine) choose(st *State, guards []*smt.Term, what string) int {
	d, _ := e.chooseP(st, guards, nil, what)
	return d
}

func (e *Engine) chooseP(st *State, guardsIn []*smt.Term, payload []uint64, what string) (int, uint64) {
	var guards []*smt.Term
	if len(st.replay) == 0 {
		guards = make([]*smt.Term, len(guardsIn))
		for i, g := range guardsIn {
			guards[i] = e.simp(st, g)
		}
	} else {
		guards = guardsIn
	}
	pl := func(i int) uint64 {
		if payload != nil {
			return payload[i]
		}
		return 0
	}
	if len(st.replay) > 0 {
		d := st.replay[0]
		st.replay = st.replay[1:]
		st.decided = append(st.decided, d)
		return d.d, d.val
	}
	// constant guards
	nconst := 0
	only := -1
	for i, g := range guards {
		if g.IsFalse() {
			nconst++
		} else {
			only = i
		}
	}
	if nconst == len(guards) {
		panic(abort{"infeasible", "no alternative: " + what})
	}
	if nconst == len(guards)-1 && guards[only].IsTrue() {
		st.decided = append(st.decided, dec{only, pl(only)})
		return only, pl(only)
	}
	st.SymBr++
	if e.Opt.Verbose > 2 {
		fmt.Fprintf(os.Stderr, "CHOOSE %s at %s (%d alternatives)\n", what, e.instrPos(st), len(guards))
	}
	var feas []int
	var models []map[string]uint64
	modelPick := -1
	if st.Model != nil {
		for i, g := range guards {
			if g.IsFalse() {
				continue
			}
			if v, _ := e.evalModel(st, g); v == 1 {
				modelPick = i
				break
			}
		}
	}
	nUnknown := 0
	if len(guards) > 6 {
		// many alternatives: find the feasible ones with one query per feasible alternative
		// (PC ∧ OR(remaining)), reading off which alternative the model satisfies.
		rem := map[int]bool{}
		for i, g := range guards {
			if !g.IsFalse() {
				rem[i] = true
			}
		}
		if modelPick >= 0 {
			feas = append(feas, modelPick)
			models = append(models, st.Model)
			delete(rem, modelPick)
		}
		for len(rem) > 0 {
			if len(feas) >= 6 {
				// many alternatives are feasible: the OR queries no longer pay off, ask one by one
				for i := range guards {
					if !rem[i] {
						continue
					}
					r, m := e.check(st, guards[i], true)
					switch r {
					case smt.Sat:
						feas = append(feas, i)
						models = append(models, m)
					case smt.Unknown:
						nUnknown++
						feas = append(feas, i)
						models = append(models, nil)
					}
				}
				break
			}
			or := e.C.False
			for i := range guards {
				if rem[i] {
					or = e.C.Or(or, guards[i])
				}
			}
			r, m := e.check(st, or, true)
			if r == smt.Unsat {
				break
			}
			if r == smt.Unknown || m == nil {
				// fall back: keep everything that is left as possibly feasible
				for i := range guards {
					if rem[i] {
						nUnknown++
						feas = append(feas, i)
						models = append(models, nil)
					}
				}
				break
			}
			memo := map[int]uint64{}
			hit := false
			for i := range guards {
				if rem[i] && smt.Eval(guards[i], m, memo) == 1 {
					feas = append(feas, i)
					models = append(models, m)
					delete(rem, i)
					hit = true
				}
			}
			if !hit {
				// the model does not determine an alternative (should not happen): stop conservatively
				for i := range guards {
					if rem[i] {
						feas = append(feas, i)
						models = append(models, nil)
					}
				}
				break
			}
		}
		sort.Sort(&feasSorter{feas, models})
	} else {
		for i, g := range guards {
			if g.IsFalse() {
				continue
			}
			if i == modelPick {
				feas = append(feas, i)
				models = append(models, st.Model)
				continue
			}
			r, m := e.check(st, g, true)
			switch r {
			case smt.Sat:
				feas = append(feas, i)
				models = append(models, m)
			case smt.Unknown:
				nUnknown++
				feas = append(feas, i) // keep: unknown = possibly feasible
				models = append(models, nil)
			}
		}
	}
	if len(feas) == 0 {
		panic(abort{"infeasible", "no feasible alternative: " + what})
	}
	// fork others
	for k := len(feas) - 1; k >= 1; k-- {
		child := st.fork()
		child.Steps-- // the child executes the current instruction again
		child.replay = append(append([]dec(nil), st.decided...), dec{feas[k], pl(feas[k])})
		child.decided = nil
		e.assertPC(child, guards[feas[k]])
		child.Model = models[k]
		e.work = append(e.work, child)
	}
	d := feas[0]
	e.assertPC(st, guards[d])
	st.Model = models[0]
	st.decided = append(st.decided, dec{d, pl(d)})
	return d, pl(d)
}

// branch on a boolean term: returns true/false for this path (forking the other).
func (e *Engine) branch(st *State, c *smt.Term, what string) bool {
	if c.IsTrue() {
		return true
	}
	if c.IsFalse() {
		return false
	}
	return e.choose(st, []*smt.Term{c, e.C.Not(c)}, what) == 0
}

// oblige records a proof obligation `cond` at the current point. On sat of PC ∧ ¬cond it records a
// finding; the path continues under cond.
func (e *Engine) oblige(st *State, cond *smt.Term, kind, label, msg string) {
	if len(st.replay) == 0 {
		cond = e.simp(st, cond)
	}
	pos := e.instrPos(st)
	if kind == "panic" && st.PanicLbl != "" {
		label = st.PanicLbl + "/" + label
	}
	if cond.IsTrue() && (kind == "panic" || e.initMode) {
		e.res.TrivialChecks++
		return
	}
	key := label
	if kind == "panic" {
		key = label + "@" + pos
	}
	ob := e.res.Obligations[key]
	if ob == nil {
		ob = &Obligation{Label: label, Pos: pos}
		e.res.Obligations[key] = ob
	}
	if len(st.replay) > 0 {
		// this obligation was already decided before the fork that is being replayed
		if !cond.IsTrue() {
			e.assertPC(st, cond)
		}
		return
	}
	if cond.IsTrue() {
		ob.Discharged++
		ob.Trivial++
		return
	}
	neg := e.C.Not(cond)
	// model shortcut: if the current model falsifies cond we already have a counterexample
	var r smt.Result
	var m map[string]uint64
	if v, ok := e.evalModel(st, neg); ok && v == 1 {
		r, m = smt.Sat, st.Model
	} else {
		r, m = e.check(st, neg, true)
	}
	switch r {
	case smt.Unsat:
		e.dumpQuery(st, neg, label)
		ob.Discharged++
		// cond is implied; adding it is harmless and helps later simplification
		return
	case smt.Unknown:
		ob.Unknown++
		e.addPC(st, cond)
		return
	}
	ob.Failed++
	// known-finding classes: report the class, exclude it, and ask again for a different violation
	excl := neg
	for m != nil {
		cls := e.classOf(st, m)
		if cls == "" || !e.isKnown(label, cls) {
			break
		}
		e.recordFinding(st, kind, label, msg, pos, m, neg).Known = true
		for _, cd := range st.Classes {
			if cd.Label == cls {
				excl = e.C.And(excl, e.C.Not(cd.Cond))
			}
		}
		r, m = e.check(st, excl, true)
		if r != smt.Sat {
			m = nil
			if r == smt.Unknown {
				ob.Unknown++
			}
		}
	}
	if m != nil {
		e.recordFinding(st, kind, label, msg, pos, m, neg)
	}
	if cond.IsFalse() {
		panic(abort{"done", "obligation failed on every input of this path: " + label})
	}
	// continue under cond, if feasible
	rr, mm := e.check(st, cond, true)
	if rr == smt.Unsat {
		panic(abort{"done", "obligation failed on every input of this path: " + label})
	}
	e.assertPC(st, cond)
	st.Model = mm
}

func (e *Engine) classOf(st *State, m map[string]uint64) string {
	memo := map[int]uint64{}
	cls := ""
	for _, c := range st.Classes {
		if smt.Eval(c.Cond, m, memo) == 1 {
			cls = c.Label
		}
	}
	return cls
}

func (e *Engine) isKnown(label, cls string) bool {
	for _, k := range e.Opt.Known[label] {
		if k == cls {
			return true
		}
	}
	for _, k := range e.Opt.Known["*"] {
		if k == cls {
			return true
		}
	}
	return false
}

func (e *Engine) recordFinding(st *State, kind, label, msg, pos string, m map[string]uint64, neg *smt.Term) *Finding {
	f := &Finding{Kind: kind, Label: label, Msg: msg, Pos: pos, Model: m, Vars: append([]NDVar(nil), st.Vars...),
		Trace: append([]string(nil), st.Trace...), Sched: append([]int(nil), st.schedHist...), Stack: e.stack(st)}
	if len(st.Threads) > 1 {
		f.Stack = append(f.Stack, e.threadSummary(st)...)
	}
	if m != nil {
		f.Notes = map[string]uint64{}
		memo := map[int]uint64{}
		for _, n := range st.Notes {
			f.Notes[n.Label] = smt.Eval(n.T, m, memo)
		}
		for _, c := range st.Classes {
			if smt.Eval(c.Cond, m, memo) == 1 {
				f.Class = c.Label
			}
		}
	}
	e.res.Findings = append(e.res.Findings, f)
	if e.Opt.Verbose > 0 {
		fmt.Fprintf(os.Stderr, "FINDING %s %s %s at %s\n", kind, label, msg, pos)
	}
	return f
}

// maxValue finds the maximum feasible unsigned value of t under PC (binary search), up to limit.
func (e *Engine) maxValue(st *State, t *smt.Term, limit uint64) (uint64, bool) {
	if t.IsConst() {
		return t.Val, true
	}
	c := e.C
	if r, _ := e.check(st, c.Ugt(t, c.BV(limit, t.W)), false); r != smt.Unsat {
		return 0, false
	}
	lo, hi := uint64(0), limit // invariant: max in [lo,hi]
	for lo < hi {
		mid := lo + (hi-lo+1)/2
		r, _ := e.check(st, c.Uge(t, c.BV(mid, t.W)), false)
		if r == smt.Unsat {
			hi = mid - 1
		} else {
			lo = mid
		}
	}
	return lo, true
}

// concretize forks over the feasible values of t (at most Opt.MaxConc) and returns this path's value.
func (e *Engine) concretize(st *State, t *smt.Term, what string) uint64 {
	if t.IsConst() {
		return t.Val
	}
	if len(st.replay) > 0 {
		_, v := e.chooseP(st, nil, nil, what)
		return v
	}
	t = e.simp(st, t)
	if t.IsConst() {
		st.decided = append(st.decided, dec{0, t.Val})
		return t.Val
	}
	c := e.C
	var vals []uint64
	excl := c.True
	if st.Model != nil {
		v, _ := e.evalModel(st, t)
		vals = append(vals, v)
		excl = c.Ne(t, c.BV(v, t.W))
	}
	for {
		fv := c.Fresh("val", t.W)
		as := append(append([]*smt.Term(nil), st.PC...), excl, c.Eq(fv, t))
		r, m := e.S.Check(as, []*smt.Term{fv})
		if r == smt.Unsat {
			break
		}
		if r == smt.Unknown {
			e.unsupported("concretize %s: solver unknown", what)
		}
		v := m[fv.Name]
		vals = append(vals, v)
		excl = c.And(excl, c.Ne(t, c.BV(v, t.W)))
		if len(vals) > e.Opt.MaxConc {
			e.unsupported("concretize %s at %s: more than %d feasible values", what, e.instrPos(st), e.Opt.MaxConc)
		}
	}
	if len(vals) == 0 {
		panic(abort{"infeasible", "concretize: path condition unsatisfiable"})
	}
	sort.Slice(vals, func(i, j int) bool { return vals[i] < vals[j] })
	guards := make([]*smt.Term, len(vals))
	for i, v := range vals {
		guards[i] = c.Eq(t, c.BV(v, t.W))
	}
	_, v := e.chooseP(st, guards, vals, what)
	return v
}

// valueOf returns some feasible value of t under PC ∧ extra.
func (e *Engine) valueOf(st *State, t *smt.Term, extra *smt.Term) uint64 {
	v := e.C.Fresh("val", t.W)
	as := append(append([]*smt.Term(nil), st.PC...), extra, e.C.Eq(v, t))
	r, m := e.S.Check(as, []*smt.Term{v})
	if r != smt.Sat {
		e.unsupported("valueOf: %v", r)
	}
	return m[v.Name]
}

// dumpQuery writes a discharged (unsat) obligation as a stand-alone script for cross-checking.
func (e *Engine) dumpQuery(st *State, neg *smt.Term, label string) {
	if e.Opt.DumpDir == "" || e.dumped >= e.Opt.DumpMax {
		return
	}
	e.dumpSeen++
	// reservoir-free: take the first DumpMax/2, then every k-th
	if e.dumped >= e.Opt.DumpMax/2 && e.dumpSeen%7 != 0 {
		return
	}
	e.dumped++
	f, err := os.Create(fmt.Sprintf("%s/q%05d.smt2", e.Opt.DumpDir, e.dumped))
	if err != nil {
		return
	}
	defer f.Close()
	fmt.Fprintf(f, "; obligation %q expected unsat\n", label)
	smt.Dump(f, append(append([]*smt.Term(nil), st.PC...), neg))
}

func dedupe(ts []*smt.Term) []*smt.Term {
	seen := make(map[int]bool, len(ts))
	out := ts[:0]
	for _, t := range ts {
		if t.IsTrue() || seen[t.ID] {
			continue
		}
		seen[t.ID] = true
		out = append(out, t)
	}
	return out
}

// assertPC appends conjuncts to the path condition and records their truth as syntactic facts.
func (e *Engine) assertPC(st *State, ts ...*smt.Term) {
	for _, t := range ts {
		if t.IsTrue() {
			continue
		}
		st.PC = append(st.PC, t)
		e.addFact(st, t, true)
	}
}

func (e *Engine) addFact(st *State, t *smt.Term, val bool) {
	if t.IsConst() {
		return
	}
	if st.facts == nil {
		st.facts = map[int]bool{}
	}
	st.facts[t.ID] = val
	st.factsVer++
	switch t.Op {
	case smt.OpNot:
		e.addFact(st, t.Args[0], !val)
	case smt.OpAnd:
		if val {
			e.addFact(st, t.Args[0], true)
			e.addFact(st, t.Args[1], true)
		}
	case smt.OpOr:
		if !val {
			e.addFact(st, t.Args[0], false)
			e.addFact(st, t.Args[1], false)
		}
	}
}

// simp rewrites t using the syntactic facts of the path condition (sub-terms known true/false).
func (e *Engine) simp(st *State, t *smt.Term) *smt.Term {
	if len(st.facts) == 0 || t.IsConst() {
		return t
	}
	if st.simpVer != st.factsVer || st.simpMemo == nil {
		st.simpMemo = map[int]*smt.Term{}
		st.simpVer = st.factsVer
	}
	return e.simpRec(st, t, 0)
}

func (e *Engine) simpRec(st *State, t *smt.Term, depth int) *smt.Term {
	if t.Op == smt.OpConst || t.Op == smt.OpVar && t.W != 0 {
		return t
	}
	if r, ok := st.simpMemo[t.ID]; ok {
		return r
	}
	if t.W == 0 {
		if v, ok := st.facts[t.ID]; ok {
			r := e.C.Bool(v)
			st.simpMemo[t.ID] = r
			return r
		}
	}
	if depth > 400 {
		return t
	}
	c := e.C
	var a [3]*smt.Term
	changed := false
	for i := 0; i < t.N; i++ {
		a[i] = e.simpRec(st, t.Args[i], depth+1)
		if a[i] != t.Args[i] {
			changed = true
		}
	}
	r := t
	if changed {
		switch t.Op {
		case smt.OpNot:
			r = c.Not(a[0])
		case smt.OpAnd:
			r = c.And(a[0], a[1])
		case smt.OpOr:
			r = c.Or(a[0], a[1])
		case smt.OpEq:
			r = c.Eq(a[0], a[1])
		case smt.OpIte:
			r = c.Ite(a[0], a[1], a[2])
		case smt.OpAdd:
			r = c.Add(a[0], a[1])
		case smt.OpSub:
			r = c.Sub(a[0], a[1])
		case smt.OpMul:
			r = c.Mul(a[0], a[1])
		case smt.OpUDiv:
			r = c.UDiv(a[0], a[1])
		case smt.OpSDiv:
			r = c.SDiv(a[0], a[1])
		case smt.OpURem:
			r = c.URem(a[0], a[1])
		case smt.OpSRem:
			r = c.SRem(a[0], a[1])
		case smt.OpBAnd:
			r = c.BAnd(a[0], a[1])
		case smt.OpBOr:
			r = c.BOr(a[0], a[1])
		case smt.OpBXor:
			r = c.BXor(a[0], a[1])
		case smt.OpBNot:
			r = c.BNot(a[0])
		case smt.OpNeg:
			r = c.Neg(a[0])
		case smt.OpShl:
			r = c.Shl(a[0], a[1])
		case smt.OpLshr:
			r = c.Lshr(a[0], a[1])
		case smt.OpAshr:
			r = c.Ashr(a[0], a[1])
		case smt.OpUlt:
			r = c.Ult(a[0], a[1])
		case smt.OpUle:
			r = c.Ule(a[0], a[1])
		case smt.OpSlt:
			r = c.Slt(a[0], a[1])
		case smt.OpSle:
			r = c.Sle(a[0], a[1])
		case smt.OpExtract:
			r = c.Extract(t.A, t.B, a[0])
		case smt.OpZext:
			r = c.Zext(a[0], t.W)
		case smt.OpSext:
			r = c.Sext(a[0], t.W)
		case smt.OpConcat:
			r = c.Concat(a[0], a[1])
		}
		if r.W == 0 && !r.IsConst() {
			if v, ok := st.facts[r.ID]; ok {
				r = c.Bool(v)
			}
		}
	}
	st.simpMemo[t.ID] = r
	return r
}

// Inc: keep the path condition on the solver stack between queries.
var Inc = os.Getenv("VF_INC") != ""

type feasSorter struct {
	f []int
	m []map[string]uint64
}

func (s *feasSorter) Len() int           { return len(s.f) }
func (s *feasSorter) Less(i, j int) bool { return s.f[i] < s.f[j] }
func (s *feasSorter) Swap(i, j int)      { s.f[i], s.f[j] = s.f[j], s.f[i]; s.m[i], s.m[j] = s.m[j], s.m[i] }

func (e *Engine) threadSummary(st *State) []string {
	var out []string
	for _, th := range st.Threads {
		status := [...]string{"runnable", "blocked", "done"}[th.Status]
		pos := ""
		if len(th.Frames) > 0 {
			fr := th.top()
			pos = fr.Fn.String()
			if fr.Block != nil && fr.Idx < len(fr.Block.Instrs) {
				for j := fr.Idx; j >= 0; j-- {
					if q := fr.Block.Instrs[j].Pos(); q.IsValid() {
						pos += " " + e.pos(q)
						break
					}
				}
			}
		}
		why := ""
		if th.Status == TBlocked {
			why = " on " + th.BlockWhy
		}
		out = append(out, fmt.Sprintf("thread %d (%s): %s%s %s", th.ID, th.Name, status, why, pos))
	}
	return out
}
