package sym

import (
	"fmt"
	"go/types"

	"vf/smt"
)

func (e *Engine) i64(v uint64) *smt.Term { return e.C.BV(v, 64) }

// isTerm reports whether v is an SMT term of width w (w<0: any).
func asTerm(v Value) (*smt.Term, bool) {
	t, ok := v.(*smt.Term)
	return t, ok
}

// resolveSym turns a pointer with symbolic index components into a concrete cell offset by
// forking (used when the pointee is not a mergeable scalar).
func (e *Engine) resolvePtr(st *State, p Ptr) Ptr {
	off := p.Off
	for _, s := range p.Sym {
		guards := make([]*smt.Term, s.N)
		for k := 0; k < s.N; k++ {
			guards[k] = e.C.Eq(s.Idx, e.i64(uint64(k)))
		}
		k := e.choose(st, guards, "symbolic index")
		off += k * s.Stride
	}
	return Ptr{Obj: p.Obj, Off: off}
}

func (e *Engine) nilCheck(st *State, p Ptr, what string) {
	if p.Obj == 0 {
		e.oblige(st, e.C.False, "panic", "nil-deref", "nil pointer dereference: "+what)
	}
}

// load reads a value of type t at p.
// narrow shrinks the candidate range of a symbolic index over a large array to the feasible
// maximum (binary search with the solver), so that ite chains stay small.
func (e *Engine) narrow(st *State, p Ptr) Ptr {
	if len(p.Sym) != 1 || p.Sym[0].N <= 512 {
		return p
	}
	s := p.Sym[0]
	// only byte/integer arrays profit (ite chains); tables of pointers are read by value groups
	if o := e.obj(st, p.Obj); o == nil || p.Off >= len(o.Cells) {
		return p
	} else if _, isTerm := o.Cells[p.Off].(*smt.Term); !isTerm {
		return p
	}
	key := s.Idx.ID
	if st.narrowCache == nil {
		st.narrowCache = map[int]int{}
	}
	mx, ok := st.narrowCache[key]
	if !ok {
		v, ok2 := e.maxValue(st, s.Idx, uint64(s.N-1))
		if !ok2 {
			return p
		}
		mx = int(v)
		st.narrowCache[key] = mx
	}
	if mx+1 < s.N {
		np := p
		np.Sym = []SymIdx{{Idx: s.Idx, Stride: s.Stride, N: mx + 1}}
		return np
	}
	return p
}

func (e *Engine) load(st *State, p Ptr, t types.Type) Value {
	e.nilCheck(st, p, "load")
	p = e.narrow(st, p)
	o := e.obj(st, p.Obj)
	if o == nil {
		e.unsupported("load from unknown object %d", p.Obj)
	}
	n := e.L.size(t)
	if len(o.SymSt) > 0 {
		if v, ok := e.loadPending(st, o, p, t, n); ok {
			return v
		}
	}
	if len(p.Sym) == 0 {
		if p.Off+n > len(o.Cells) {
			e.unsupported("load out of object bounds (off %d size %d cells %d, type %v)", p.Off, n, len(o.Cells), t)
		}
		if n == 1 {
			if _, isArr := t.Underlying().(*types.Array); !isArr {
				if _, isSt := t.Underlying().(*types.Struct); !isSt {
					return o.Cells[p.Off]
				}
			}
		}
		return e.unflatten(t, o.Cells[p.Off:p.Off+n])
	}
	// symbolic index: scalar terms are merged with an ite chain
	if n == 1 && len(p.Sym) == 1 {
		s := p.Sym[0]
		allTerms := true
		for k := 0; k < s.N; k++ {
			c := p.Off + k*s.Stride
			if c >= len(o.Cells) {
				break
			}
			if _, ok := o.Cells[c].(*smt.Term); !ok {
				allTerms = false
				break
			}
		}
		if allTerms {
			return e.iteRead(o.Cells, p.Off, s)
		}
	}
	if n == 1 && len(p.Sym) == 1 {
		if v, ok := e.groupedRead(st, o.Cells, p.Off, p.Sym[0]); ok {
			return v
		}
	}
	return e.load(st, e.resolvePtr(st, p), t)
}

func groupKey(v Value) (string, bool) {
	switch x := v.(type) {
	case Ptr:
		if len(x.Sym) == 0 {
			return fmt.Sprintf("p%d.%d", x.Obj, x.Off), true
		}
	case MapV:
		return fmt.Sprintf("m%d", x.Obj), true
	case ChanV:
		return fmt.Sprintf("c%d", x.Obj), true
	case Iface:
		if x.T == nil {
			return "inil", true
		}
		if k, ok := groupKey(x.V); ok {
			return "i" + x.T.String() + k, true
		}
	case Func:
		if x.Fn == nil && x.B == nil {
			return "fnil", true
		}
	case Str:
		if x.IsConst {
			return "s" + x.S, true
		}
	}
	return "", false
}

// groupedRead reads a non-term cell under a symbolic index by forking over the distinct values
// stored in the candidate cells (few distinct values, e.g. a mostly-nil table).
func (e *Engine) groupedRead(st *State, cells []Value, base int, s SymIdx) (Value, bool) {
	type grp struct {
		v  Value
		ks []int
	}
	groups := map[string]*grp{}
	var order []string
	for k := 0; k < s.N; k++ {
		c := base + k*s.Stride
		if c >= len(cells) {
			break
		}
		key, ok := groupKey(cells[c])
		if !ok {
			return nil, false
		}
		g := groups[key]
		if g == nil {
			if len(groups) >= 16 {
				return nil, false
			}
			g = &grp{v: cells[c]}
			groups[key] = g
			order = append(order, key)
		}
		g.ks = append(g.ks, k)
	}
	if len(order) == 1 {
		return groups[order[0]].v, true
	}
	// biggest group gets the complement guard
	big := order[0]
	for _, k := range order {
		if len(groups[k].ks) > len(groups[big].ks) {
			big = k
		}
	}
	guards := make([]*smt.Term, len(order))
	others := e.C.False
	for i, k := range order {
		if k == big {
			continue
		}
		g := e.C.False
		for _, kk := range groups[k].ks {
			g = e.C.Or(g, e.C.Eq(s.Idx, e.i64(uint64(kk))))
		}
		guards[i] = g
		others = e.C.Or(others, g)
	}
	for i, k := range order {
		if k == big {
			guards[i] = e.C.Not(others)
		}
	}
	d := e.choose(st, guards, "symbolic index over few distinct values")
	return groups[order[d]].v, true
}

// iteRead builds ite(idx==0, c0, ite(idx==1, c1, ...)) over term cells.
func (e *Engine) iteRead(cells []Value, base int, s SymIdx) *smt.Term {
	n := s.N
	if base+(n-1)*s.Stride >= len(cells) {
		n = (len(cells)-base-1)/s.Stride + 1
	}
	// narrow by evident range of the index
	var res *smt.Term
	for k := n - 1; k >= 0; k-- {
		v := cells[base+k*s.Stride].(*smt.Term)
		if res == nil {
			res = v
			continue
		}
		res = e.C.Ite(e.C.Eq(s.Idx, e.i64(uint64(k))), v, res)
	}
	return res
}

func (e *Engine) store(st *State, p Ptr, t types.Type, v Value) {
	e.nilCheck(st, p, "store")
	p = e.narrow(st, p)
	n := e.L.size(t)
	if ro := e.obj(st, p.Obj); ro != nil && len(ro.SymSt) > 0 && e.overlapsPending(ro, p, n) {
		e.storePending(st, p, t, v, n)
		return
	}
	if len(p.Sym) > 0 {
		if n == 1 && len(p.Sym) == 1 {
			if vt, ok := v.(*smt.Term); ok {
				o := e.obj(st, p.Obj)
				s := p.Sym[0]
				allTerms := true
				cnt := 0
				for k := 0; k < s.N; k++ {
					c := p.Off + k*s.Stride
					if c >= len(o.Cells) {
						break
					}
					cnt++
					if ot, ok := o.Cells[c].(*smt.Term); !ok || ot.W != vt.W {
						allTerms = false
						break
					}
				}
				if allTerms {
					w := e.wobj(st, p.Obj)
					for k := 0; k < cnt; k++ {
						c := p.Off + k*s.Stride
						w.Cells[c] = e.C.Ite(e.C.Eq(s.Idx, e.i64(uint64(k))), vt, w.Cells[c].(*smt.Term))
					}
					return
				}
			}
		}
		if len(p.Sym) == 1 && p.Sym[0].Stride >= n && p.Sym[0].N > 4 {
			e.storePending(st, p, t, v, n)
			return
		}
		p = e.resolvePtr(st, p)
	}
	o := e.wobj(st, p.Obj)
	if o == nil {
		e.unsupported("store to unknown object %d", p.Obj)
	}
	if p.Off+n > len(o.Cells) {
		e.unsupported("store out of object bounds (off %d size %d cells %d type %v)", p.Off, n, len(o.Cells), t)
	}
	if n == 1 {
		switch t.Underlying().(type) {
		case *types.Struct, *types.Array:
		default:
			o.Cells[p.Off] = v
			return
		}
	}
	if n > 0 {
		e.flatten(t, v, o.Cells[p.Off:p.Off+n])
	}
}

// ---------- slices ----------

// elemPtr returns a pointer to element i (64-bit term) of the slice; the caller has done the bounds check.
func (e *Engine) elemPtr(s Slice, i *smt.Term) Ptr {
	idx := e.C.Add(s.Off, i)
	if idx.IsConst() {
		return Ptr{Obj: s.Obj, Off: s.Base + int(idx.Val)*s.Stride}
	}
	return Ptr{Obj: s.Obj, Off: s.Base, Sym: []SymIdx{{Idx: idx, Stride: s.Stride, N: s.ArrLen}}}
}

// readElem reads scalar element i of a slice whose elements are single cells.
func (e *Engine) readElem(st *State, s Slice, i *smt.Term, t types.Type) Value {
	return e.load(st, e.elemPtr(s, i), t)
}

func (e *Engine) boundsCheck(st *State, i, n *smt.Term, what string) {
	e.oblige(st, e.C.Ult(i, n), "panic", "index-out-of-range", what)
}

// newArray allocates a backing array of n elements of type elem and returns a slice over it.
func (e *Engine) newArray(st *State, elem types.Type, n int) Slice {
	id, o := e.newObj(st, ObjMem, types.NewArray(elem, int64(n)))
	stride := e.L.size(elem)
	o.Cells = make([]Value, n*stride)
	if stride == 1 {
		z := e.zero(elem)
		for i := range o.Cells {
			o.Cells[i] = z
		}
	} else if n > 0 {
		zc := e.zeroCells(elem)
		for i := 0; i < n; i++ {
			copy(o.Cells[i*stride:], zc)
		}
	}
	ln := e.i64(uint64(n))
	return Slice{Obj: id, Base: 0, Stride: stride, ArrLen: n, Off: e.i64(0), Len: ln, Cap: ln}
}

// ---------- strings ----------

func (e *Engine) strLen(s Str) *smt.Term {
	if s.IsConst {
		return e.i64(uint64(len(s.S)))
	}
	return s.Sl.Len
}

// strByte returns byte i (64-bit term index, assumed in range) as an 8-bit term.
func (e *Engine) strByte(st *State, s Str, i *smt.Term) *smt.Term {
	if s.IsConst {
		if i.IsConst() {
			return e.C.BV(uint64(s.S[i.Val]), 8)
		}
		// ite chain over the constant
		var res *smt.Term
		for k := len(s.S) - 1; k >= 0; k-- {
			v := e.C.BV(uint64(s.S[k]), 8)
			if res == nil {
				res = v
			} else {
				res = e.C.Ite(e.C.Eq(i, e.i64(uint64(k))), v, res)
			}
		}
		if res == nil {
			return e.C.BV(0, 8)
		}
		return res
	}
	v := e.load(st, e.elemPtr(s.Sl, i), types.Typ[types.Uint8])
	return v.(*smt.Term)
}

// strConcrete returns the Go string if s is fully concrete.
func (e *Engine) strConcrete(st *State, s Str) (string, bool) {
	if s.IsConst {
		return s.S, true
	}
	if !s.Sl.Len.IsConst() || !s.Sl.Off.IsConst() {
		return "", false
	}
	n := int(s.Sl.Len.Val)
	if n == 0 {
		return "", true
	}
	o := e.obj(st, s.Sl.Obj)
	b := make([]byte, n)
	for i := 0; i < n; i++ {
		t, ok := o.Cells[s.Sl.Base+int(s.Sl.Off.Val)+i].(*smt.Term)
		if !ok || !t.IsConst() {
			return "", false
		}
		b[i] = byte(t.Val)
	}
	return string(b), true
}

// mkStr builds a dynamic string from byte terms.
func (e *Engine) mkStr(st *State, bytes []*smt.Term) Str {
	allc := true
	for _, b := range bytes {
		if !b.IsConst() {
			allc = false
			break
		}
	}
	if allc {
		bs := make([]byte, len(bytes))
		for i, b := range bytes {
			bs[i] = byte(b.Val)
		}
		return Str{IsConst: true, S: string(bs)}
	}
	sl := e.newArray(st, types.Typ[types.Uint8], len(bytes))
	o := e.wobj(st, sl.Obj)
	for i, b := range bytes {
		o.Cells[i] = b
	}
	return Str{Sl: sl}
}

// strEq: equality of two strings as a Bool term.
func (e *Engine) strEq(st *State, a, b Str) *smt.Term {
	c := e.C
	if a.IsConst && b.IsConst {
		return c.Bool(a.S == b.S)
	}
	la, lb := e.strLen(a), e.strLen(b)
	leq := c.Eq(la, lb)
	if leq.IsFalse() {
		return leq
	}
	// number of bytes to compare: a concrete upper bound
	n, ok := e.strMaxLen(a, b)
	if !ok {
		e.unsupported("string equality with unbounded symbolic lengths")
	}
	res := leq
	for i := 0; i < n; i++ {
		ii := e.i64(uint64(i))
		inr := c.Ult(ii, la)
		if inr.IsFalse() {
			break
		}
		beq := c.Eq(e.strByteSafe(st, a, ii), e.strByteSafe(st, b, ii))
		res = c.And(res, c.Implies(inr, beq))
		if res.IsFalse() {
			break
		}
	}
	return res
}

// strMaxLen returns a concrete bound on the common length.
func (e *Engine) strMaxLen(a, b Str) (int, bool) {
	best := -1
	for _, s := range []Str{a, b} {
		var m int
		if s.IsConst {
			m = len(s.S)
		} else if s.Sl.Len.IsConst() {
			m = int(s.Sl.Len.Val)
		} else {
			m = s.Sl.ArrLen
		}
		if best < 0 || m < best {
			best = m
		}
	}
	return best, best >= 0
}

// strByteSafe reads byte i, returning 0 beyond the backing storage (callers guard by length).
func (e *Engine) strByteSafe(st *State, s Str, i *smt.Term) *smt.Term {
	if s.IsConst {
		if i.IsConst() && int(i.Val) >= len(s.S) {
			return e.C.BV(0, 8)
		}
		return e.strByte(st, s, i)
	}
	idx := e.C.Add(s.Sl.Off, i)
	if idx.IsConst() && int(idx.Val) >= s.Sl.ArrLen {
		return e.C.BV(0, 8)
	}
	return e.strByte(st, s, i)
}

// strLess: a < b lexicographically.
func (e *Engine) strLess(st *State, a, b Str) *smt.Term {
	c := e.C
	if a.IsConst && b.IsConst {
		return c.Bool(a.S < b.S)
	}
	la, lb := e.strLen(a), e.strLen(b)
	na, _ := e.strMaxLen(a, a)
	nb, _ := e.strMaxLen(b, b)
	n := na
	if nb < n {
		n = nb
	}
	// build from the end: less_i = i>=la ? (i<lb) : (i>=lb ? false : (a[i]<b[i] || (a[i]==b[i] && less_{i+1})))
	res := c.Ult(la, lb) // reached when all n bytes compared equal and both have >= n bytes... then shorter wins
	for i := n - 1; i >= 0; i-- {
		ii := e.i64(uint64(i))
		ab, bb := e.strByteSafe(st, a, ii), e.strByteSafe(st, b, ii)
		inner := c.Or(c.Ult(ab, bb), c.And(c.Eq(ab, bb), res))
		res = c.Ite(c.Ule(la, ii), c.Ult(ii, lb), c.Ite(c.Ule(lb, ii), c.False, inner))
	}
	return res
}

// strToBytes copies a string into a fresh byte slice (same view shape).
func (e *Engine) strToSlice(st *State, s Str) Slice {
	if s.IsConst {
		sl := e.newArray(st, types.Typ[types.Uint8], len(s.S))
		if len(s.S) > 0 {
			o := e.wobj(st, sl.Obj)
			for i := 0; i < len(s.S); i++ {
				o.Cells[i] = e.C.BV(uint64(s.S[i]), 8)
			}
		}
		return sl
	}
	return e.cloneView(st, s.Sl, false)
}

// cloneView copies the backing region of a view into a fresh object, keeping Off/Len.
func (e *Engine) cloneView(st *State, v Slice, keepCap bool) Slice {
	if v.Obj == 0 {
		z := e.i64(0)
		return Slice{Stride: v.Stride, Off: z, Len: z, Cap: z}
	}
	src := e.obj(st, v.Obj)
	id, o := e.newObj(st, ObjMem, src.Typ)
	o.Cells = append([]Value(nil), src.Cells[v.Base:v.Base+v.ArrLen*v.Stride]...)
	n := Slice{Obj: id, Base: 0, Stride: v.Stride, ArrLen: v.ArrLen, Off: v.Off, Len: v.Len, Cap: v.Len}
	if keepCap {
		n.Cap = v.Cap
	}
	return n
}

func (e *Engine) sliceToStr(st *State, s Slice) Str {
	if s.Obj == 0 || (s.Len.IsConst() && s.Len.Val == 0) {
		return Str{IsConst: true}
	}
	v := e.cloneView(st, s, false)
	str := Str{Sl: v}
	if cs, ok := e.strConcrete(st, str); ok {
		return Str{IsConst: true, S: cs}
	}
	return str
}

func (e *Engine) describe(v Value) string {
	switch x := v.(type) {
	case *smt.Term:
		return x.Pretty(200)
	case Str:
		if x.IsConst {
			return fmt.Sprintf("%q", x.S)
		}
		return "str(dyn)"
	}
	return fmt.Sprintf("%T", v)
}

// ---------- pending symbolic stores (lazy store chain for non-mergeable values) ----------

func (e *Engine) overlapsPending(o *Object, p Ptr, n int) bool {
	lo, hi := p.Off, p.Off+n
	for _, s := range p.Sym {
		hi += (s.N - 1) * s.Stride
	}
	for _, ps := range o.SymSt {
		if lo < ps.Off+ps.N*ps.Stride && hi > ps.Off {
			return true
		}
	}
	return false
}

// elemOf maps a pointer (with at most one symbolic component) into element coordinates of the
// region (off, stride): returns the element index term and the cell offset inside the element.
func (e *Engine) elemOf(p Ptr, off, stride, nElem int) (*smt.Term, int, bool) {
	rel := p.Off - off
	if rel < 0 {
		return nil, 0, false
	}
	if len(p.Sym) == 0 {
		k := rel / stride
		if k >= nElem {
			return nil, 0, false
		}
		return e.i64(uint64(k)), rel % stride, true
	}
	if len(p.Sym) == 1 && p.Sym[0].Stride == stride {
		k := rel / stride
		return e.C.Add(p.Sym[0].Idx, e.i64(uint64(k))), rel % stride, true
	}
	return nil, 0, false
}

func (e *Engine) storePending(st *State, p Ptr, t types.Type, v Value, n int) {
	o := e.wobj(st, p.Obj)
	var off, stride, cnt int
	if len(p.Sym) == 1 {
		off, stride, cnt = p.Off-(p.Off%1), p.Sym[0].Stride, p.Sym[0].N
		// region base: the pointer's concrete offset is the base of element 0 plus the in-element offset;
		// align to an existing pending region if one overlaps
		for _, ps := range o.SymSt {
			if ps.Stride == stride && p.Off >= ps.Off && (p.Off-ps.Off)%stride < stride {
				off, cnt = ps.Off, ps.N
				break
			}
		}
	} else if len(p.Sym) == 0 {
		found := false
		for _, ps := range o.SymSt {
			if p.Off >= ps.Off && p.Off+n <= ps.Off+ps.N*ps.Stride {
				off, stride, cnt, found = ps.Off, ps.Stride, ps.N, true
				break
			}
		}
		if !found {
			e.unsupported("store overlapping a pending symbolic store region")
		}
	} else {
		e.unsupported("store with several symbolic index components over a pending region")
	}
	idx, inEl, ok := e.elemOf(p, off, stride, cnt)
	if !ok || inEl+n > stride {
		e.unsupported("store not aligned with pending symbolic store region")
	}
	vals := make([]Value, stride)
	if inEl != 0 || n != stride {
		// partial element write: read-modify-write of the whole element is not supported symbolically
		if !idx.IsConst() {
			e.unsupported("partial element store at a symbolic index")
		}
		cur := e.loadCellsAt(st, p.Obj, off+int(idx.Val)*stride, stride)
		copy(vals, cur)
	}
	tmp := make([]Value, n)
	if n == 1 {
		switch t.Underlying().(type) {
		case *types.Struct, *types.Array:
			e.flatten(t, v, tmp)
		default:
			tmp[0] = v
		}
	} else if n > 0 {
		e.flatten(t, v, tmp)
	}
	copy(vals[inEl:], tmp)
	o = e.wobj(st, p.Obj)
	o.SymSt = append(o.SymSt, SymStore{Off: off, Stride: stride, N: cnt, Idx: idx, Vals: vals})
}

// loadCellsAt reads `n` raw cells at a concrete offset honouring pending stores.
func (e *Engine) loadCellsAt(st *State, obj, off, n int) []Value {
	out := make([]Value, n)
	for i := 0; i < n; i++ {
		out[i] = e.load(st, Ptr{Obj: obj, Off: off + i}, types.Typ[types.Uintptr])
	}
	return out
}

// loadPending resolves a read against the pending stores, newest first, forking on index equality.
func (e *Engine) loadPending(st *State, o *Object, p Ptr, t types.Type, n int) (Value, bool) {
	if !e.overlapsPending(o, p, n) {
		return nil, false
	}
	for i := len(o.SymSt) - 1; i >= 0; i-- {
		ps := o.SymSt[i]
		idx, inEl, ok := e.elemOf(p, ps.Off, ps.Stride, ps.N)
		if !ok {
			lo, hi := p.Off, p.Off+n
			if lo < ps.Off+ps.N*ps.Stride && hi > ps.Off {
				e.unsupported("read overlapping a pending symbolic store with a different shape")
			}
			continue
		}
		if inEl+n > ps.Stride {
			e.unsupported("read spanning elements of a pending symbolic store")
		}
		if e.branch(st, e.C.Eq(idx, ps.Idx), "read hits pending symbolic store") {
			cells := ps.Vals[inEl : inEl+n]
			if n == 1 {
				switch t.Underlying().(type) {
				case *types.Struct, *types.Array:
				default:
					return cells[0], true
				}
			}
			return e.unflatten(t, cells), true
		}
	}
	return nil, false
}
