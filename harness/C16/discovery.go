//vf:pkg config
package config

import (
	"context"
	"errors"
	"time"

	nd "github.com/samaritan-proxy/samaritan/vfnd"
)

// vfCtx is a context whose Done channel the harness closes.
type vfCtx struct{ done chan struct{} }

func (c *vfCtx) Deadline() (time.Time, bool)       { return time.Time{}, false }
func (c *vfCtx) Done() <-chan struct{}             { return c.done }
func (c *vfCtx) Err() error                        { return nil }
func (c *vfCtx) Value(key interface{}) interface{} { return nil }

// vfErrStream is what a broken stream reports. The client's own context is never cancelled before
// the end of a run, so whatever the error says the client has to retry - also when the failure
// carries the "cancelled" error of some other context (a proxy or the peer reset the stream).
var vfErrStream = errors.New("vf: stream broken")

// vfStream is one generation of the discovery stream: it tracks the set of services subscribed on
// it (subscribe requests minus unsubscribe requests, applied in the order sent; within one
// request subscriptions are applied before unsubscriptions) and can break.
type vfStream struct {
	set    map[string]bool
	msgs   int
	broken chan struct{}
	isBroken bool
	sawBoth     bool // some request named one service in both lists
	sendFailsAt int
	stallAt     int // index of the Send that is slow: it blocks until `resume` is closed
	resume      chan struct{}
}

func (s *vfStream) breakNow() {
	if !s.isBroken {
		s.isBroken = true
		close(s.broken)
	}
}

func (s *vfStream) Send(sub, unsub []string) error {
	if s.isBroken || s.msgs == s.sendFailsAt {
		s.breakNow()
		return vfErrStream
	}
	if s.msgs == s.stallAt {
		s.stallAt = -1
		<-s.resume // a slow Send: the caller keeps changing dependencies meanwhile
	}
	s.msgs++
	for _, a := range sub {
		for _, b := range unsub {
			if a == b {
				s.sawBoth = true
			}
		}
	}
	for _, n := range sub {
		s.set[n] = true
	}
	for _, n := range unsub {
		delete(s.set, n)
	}
	return nil
}

func (s *vfStream) Recv() error {
	<-s.broken // nothing is pushed by the server in this harness; Recv ends when the stream breaks
	return vfErrStream
}

// VfC16_Subscriptions: for any sequence of Subscribe/Unsubscribe calls interleaved with stream
// creation failures, send failures and re-establishment, the caller is never parked forever and,
// once things are quiet with a live stream, the services subscribed on that stream are exactly the
// current dependency set.
func VfC16_Subscriptions() {
	nd.ConcreteClock(true)
	vfErrStream = errors.New("vf: stream broken")
	if nd.Param("cancelerr", 0) == 1 {
		vfErrStream = context.Canceled // stream failures report a cancelled context (not the client's own)
	}
	qcap := nd.Param("qcap", 2)
	ctx := &vfCtx{done: make(chan struct{})}
	var streams []*vfStream
	maxGen := nd.Param("generations", 2)
	if nd.Bool("stream-down-for-long") {
		maxGen = 0 // the discovery service is unreachable for the whole run
	}
	stall := nd.Bool("a-send-is-slow")
	firstFails := nd.Bool("first-create-fails")
	slowConnect := !firstFails && !stall && nd.Bool("connect-is-slow") // the first stream is established only after the caller's changes
	slowReconnect := nd.Param("slowreconnect", 0) == 1
	if slowReconnect {
		// the retry timer fires late: a Send of the first stream fails and the remaining changes
		// arrive while the stream is down; the next stream is established afterwards
		nd.Assume(maxGen > 0 && !stall && !firstFails && !slowConnect)
		nd.LazyTimers(true)
	}
	connectGo := make(chan struct{})
	attempts := 0
	c := &svcDiscoveryClient{
		scope:      "vf",
		subscribed: map[string]struct{}{},
		subCh:      make(chan string, qcap),
		unsubCh:    make(chan string, qcap),
	}
	c.newStream = func(cx context.Context) (svcDiscoveryStream, error) {
		attempts++
		if attempts == 1 && firstFails {
			return nil, vfErrStream
		}
		if attempts == 1 && slowConnect {
			<-connectGo
		}
		if len(streams) >= maxGen {
			<-ctx.done // no further generation within the bound: park until the end
			return nil, vfErrStream
		}
		s := &vfStream{set: map[string]bool{}, broken: make(chan struct{}), sendFailsAt: -1, stallAt: -1, resume: make(chan struct{})}
		if len(streams) == 0 && stall {
			s.stallAt = nd.Concrete(nd.IntRange("stallat", 0, 1))
		}
		if len(streams) == 0 && !stall && (slowReconnect || nd.Bool("send-fails")) {
			s.sendFailsAt = nd.Concrete(nd.IntRange("failat", 0, 1))
		}
		streams = append(streams, s)
		return s, nil
	}
	names := []string{"x", "y", "z"}[:nd.Param("names", 2)]
	subOnly := nd.Param("subonly", 0) == 1
	ncalls := nd.Param("calls", 3)
	callerDone := false
	subbed, unsubbed := map[string]bool{}, map[string]bool{}
	go c.Run(ctx)
	// the caller issues its first change, time passes (the client may connect, resubscribe, stall
	// in a slow Send ...), then the remaining changes arrive
	call := func(i int) {
		n := names[nd.Concrete(nd.Choice("name", len(names)))]
		if !subOnly && nd.Bool("unsubscribe") {
			unsubbed[n] = true
			c.Unsubscribe(n)
		} else {
			subbed[n] = true
			c.Subscribe(n)
		}
	}
	firstDone := false
	go func() { call(0); firstDone = true }()
	nd.Quiesce()
	go func() {
		for !firstDone {
			return // the first call is parked (queue full): nothing more can be issued by this caller
		}
		for i := 1; i < ncalls; i++ {
			call(i)
		}
		callerDone = true
	}()
	nd.PanicLabel("discovery")
	nd.Quiesce()
	if slowReconnect {
		nd.Quiesce() // time has passed: the retry timer fires, the next stream is established
		// only the schedules in which the second stream did get established meanwhile are looked
		// at here (that the client retries at all is the subject of the obligations without the
		// late timer)
		if !nd.Symbolic() {
			for i := 0; i < 10 && len(streams) < 2; i++ { // natively the client retries after about a second
				nd.Quiesce()
			}
			nd.Quiesce()
		}
		nd.Assume(len(streams) == 2)
		nd.Cover("changes-while-down")
	}
	if slowConnect {
		close(connectGo)
		nd.Quiesce()
		nd.Cover("connected-late")
	}
	if stall {
		// the slow Send completes now; everything queued meanwhile must still reach the stream
		for _, s := range streams {
			if s.stallAt == -1 {
				select {
				case <-s.resume:
				default:
					close(s.resume)
				}
			}
		}
		nd.Quiesce()
		nd.Cover("slow-send-resumed")
	}
	// the client keeps retrying: while the discovery service accepts streams, a failed stream (or a
	// failed attempt to create one) is followed by a new one, also after the second failure
	if callerDone && len(streams) < maxGen {
		nd.Assert(len(streams) > 0 && !streams[len(streams)-1].isBroken, "after a stream failure the client establishes a new stream (it retries after every failure, not only the first)")
	}
	if len(streams) >= 2 || (firstFails && len(streams) >= 1 && attempts >= 3) {
		nd.Cover("retried-twice")
	}
	nd.Class("caller-blocks-on-full-queue-holding-the-lock", !callerDone && (len(c.subCh) == qcap || len(c.unsubCh) == qcap))
	nd.Assert(callerDone, "the caller of Subscribe/Unsubscribe is never parked forever")
	if callerDone && len(streams) > 0 {
		live := streams[len(streams)-1]
		if !live.isBroken && len(c.subCh) == 0 && len(c.unsubCh) == 0 {
			nd.Cover("live-stream-quiet")
			same := len(live.set) == len(c.subscribed)
			for n := range c.subscribed {
				if !live.set[n] {
					same = false
				}
			}
			// the known reordering needs a name that was both subscribed and unsubscribed (two queues)
			mixed := false
			for _, n := range names {
				if subbed[n] && unsubbed[n] {
					mixed = true
				}
			}
			nd.Class("subscribe-unsubscribe-reordered", !same && mixed && live.sawBoth)
			nd.Assert(same, "the services subscribed on the live stream are exactly the current dependency set")
		}
	}
	close(ctx.done)
}
