//vf:pkg proc/internal/hc
package hc

import (
	"errors"
	"net"
	"time"

	hostpkg "github.com/samaritan-proxy/samaritan/host"
	hcpb "github.com/samaritan-proxy/samaritan/pb/config/hc"
	hcredis "github.com/samaritan-proxy/samaritan/proc/internal/hc/redis"
	"github.com/samaritan-proxy/samaritan/proc/internal/log"

	nd "github.com/samaritan-proxy/samaritan/vfnd"
)

// vfTarget is the host the monitor checks. The monitor is built by NewMonitor with the Redis
// checker (connect, PING, expect PONG): under the executor the checker's Check method is replaced
// by its outcome (vfTarget.check); natively the real checker runs against a loopback listener
// answering PONG that is opened and closed between the checks.
type vfTarget struct {
	addr string
	up   bool
	ln   net.Listener
}

func vfNewTarget() *vfTarget {
	t := &vfTarget{addr: "10.0.0.1:80"}
	if nd.Symbolic() {
		// the protocol checker itself (connect, PING, PONG, each under a deadline) is replaced by
		// its outcome; natively the real checker runs against the loopback listener
		nd.Replace("(*github.com/samaritan-proxy/samaritan/proc/internal/hc/redis.Checker).Check", t.check)
	} else {
		ln, err := net.Listen("tcp", "127.0.0.1:0")
		if err != nil {
			panic(err)
		}
		t.addr = ln.Addr().String()
		ln.Close()
	}
	return t
}

func (t *vfTarget) check(c *hcredis.Checker, addr string, timeout time.Duration) error {
	if !t.up {
		return errors.New("vf: connection refused")
	}
	return nil
}

func (t *vfTarget) set(up bool) {
	t.up = up
	if nd.Symbolic() {
		return
	}
	if up && t.ln == nil {
		ln, err := net.Listen("tcp", t.addr)
		if err != nil {
			panic(err)
		}
		t.ln = ln
		go func() {
			for {
				c, err := ln.Accept()
				if err != nil {
					return
				}
				go func() {
					buf := make([]byte, 64)
					if n, _ := c.Read(buf); n > 0 {
						c.Write([]byte("+PONG\r\n"))
					}
					c.Close()
				}()
			}
		}()
	} else if !up && t.ln != nil {
		t.ln.Close()
		t.ln = nil
	}
}

func vfHcConfig(rise, fall uint32) *hcpb.HealthCheck {
	return &hcpb.HealthCheck{Interval: time.Second, Timeout: time.Second, RiseThreshold: rise, FallThreshold: fall,
		Checker: &hcpb.HealthCheck_RedisChecker{RedisChecker: &hcpb.RedisChecker{}}}
}

// VfC15_Hysteresis: a host's health flips only after at least `threshold` consecutive contrary
// check results; any opposite result restarts the count; it flips back the same way; and the
// usable set follows the flag. The thresholds are those of the latest configuration: they may be
// changed once at a symbolic point of the sequence (ResetHealthCheck, as a service configuration
// update does), with the checker unchanged.
func VfC15_Hysteresis() {
	n := nd.Param("results", 7)
	rise := uint32(nd.IntRange("rise", 1, 3))
	fall := uint32(nd.IntRange("fall", 1, 3))
	nd.ConcreteClock(true) // the checks' deadlines lie in the future
	tg := vfNewTarget()
	h := hostpkg.New(tg.addr)
	set := hostpkg.NewSet(h)
	m, err := NewMonitor(vfHcConfig(rise, fall), set, log.New("vf"))
	nd.Assert(err == nil && m != nil, "harness: the monitor is created")
	if m == nil {
		return
	}
	resetAt := nd.Concrete(nd.IntRange("thresholds-changed-before-result", 0, n)) // n: never
	run := 0 // length of the current run of results contrary to the current state
	nd.PanicLabel("monitor")
	for i := 0; i < n; i++ {
		if i == resetAt {
			rise = uint32(nd.IntRange("new-rise", 1, 3))
			fall = uint32(nd.IntRange("new-fall", 1, 3))
			nd.Assert(m.ResetHealthCheck(vfHcConfig(rise, fall)) == nil, "harness: the new thresholds are accepted")
			nd.Cover("thresholds-changed")
		}
		ok := nd.Bool("result")
		was := h.IsHealthy()
		tg.set(ok)
		m.checkHostAndUpdateStatus(h)
		now := h.IsHealthy()
		if ok == was {
			run = 0
		} else {
			run++
		}
		if now != was {
			nd.Cover("flipped")
			thr := fall
			if now {
				thr = rise
			}
			nd.Assert(ok == now, "the flip goes in the direction of the last result")
			nd.Assert(run >= int(thr), "health flips only after at least the configured number of consecutive contrary results")
			run = 0
		}
		usable := len(set.Healthy()) == 1
		nd.Assert(usable == now, "the usable set follows the health flag")
	}
	tg.set(false)
}

// VfC09_MonitorRound: one health-check round over a host set — of a few hosts, of exactly the
// worker limit, and of one host more than the worker limit — checks every host once and ends
// (Monitor.Stop and with it the service's Stop wait for the round).
func VfC09_MonitorRound() {
	sizes := []int{0, 1, 3, MaximumConcurrency, MaximumConcurrency + 1}
	n := sizes[nd.Concrete(nd.Choice("hosts", len(sizes)))]
	hs := make([]*hostpkg.Host, n)
	for i := range hs {
		hs[i] = hostpkg.New("127.0.0." + itoa(1+i/250) + ":" + itoa(1+i%250)) // natively: refused at once
	}
	set := hostpkg.NewSet(hs...)
	checked := 0
	if nd.Symbolic() {
		nd.Replace("(*github.com/samaritan-proxy/samaritan/proc/internal/hc/redis.Checker).Check",
			func(c *hcredis.Checker, addr string, timeout time.Duration) error { checked++; return nil })
	}
	m, err := NewMonitor(vfHcConfig(1, 1), set, log.New("vf"))
	nd.Assert(err == nil && m != nil, "harness: the monitor is created")
	if m == nil {
		return
	}
	done := false
	nd.PanicLabel("monitor-round")
	go func() { m.checkHosts(); done = true }()
	nd.Quiesce()
	if !nd.Symbolic() {
		for i := 0; i < 100 && !done; i++ { // real connects: give the round up to 30 s
			nd.Quiesce()
		}
	}
	nd.Assert(done, "a health-check round ends, whatever the number of hosts (Stop waits for it)")
	if nd.Symbolic() {
		nd.Assert(checked == n, "every host is checked once per round")
	}
	if n > MaximumConcurrency {
		nd.Cover("more-hosts-than-workers")
	}
}

func itoa(i int) string {
	if i == 0 {
		return "0"
	}
	s := ""
	for i > 0 {
		s = string(rune('0'+i%10)) + s
		i /= 10
	}
	return s
}
