//vf:pkg cmd/samaritan
package main

import (
	"github.com/samaritan-proxy/samaritan/cmd/samaritan/hotrestart"
	nd "github.com/samaritan-proxy/samaritan/vfnd"
)

// VfC17_RealInstance: the hand-over steps are performed by the process's real instance object (the
// dispatch obligations use a recording double for it). The step "stop the local configuration
// store" must be performed by the instance and return: the Restarter calls it through the Instance
// interface it embeds, and the instance embeds the Restarter, so a step the instance does not
// implement itself would be "promoted" back and forth between the two for ever - a fatal stack
// overflow of the old process.
func VfC17_RealInstance() {
	in := &instance{id: 1, parentID: -1}
	in.Restarter = &hotrestart.Restarter{Instance: in}
	nd.PanicLabel("real-instance")
	d0 := nd.Depth()
	nd.StackLimit(d0 + 40)
	times := nd.Concrete(nd.IntRange("requests", 1, 2))
	for i := 0; i < times; i++ {
		// what Restarter.handleShutdownLocalConfRequest does before it acknowledges
		in.Restarter.ShutdownLocalConf()
	}
	nd.Cover("local-conf-step-returned")
	nd.Assert(nd.Depth() == d0, "the step returns to the dispatcher")
}
