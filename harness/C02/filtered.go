//vf:pkg proc/redis
package redis

import (
	nd "github.com/samaritan-proxy/samaritan/vfnd"
)

// VfC02_LocallyAnsweredBehindQueued: a request that the connection's filter chain answers itself
// (a command disabled under compression) is queued right behind a request that was encoded but not
// yet flushed (the writer batches while more requests are pending). The earlier request still
// reaches the backend and is answered: nobody waits for traffic that may never come.
func VfC02_LocallyAnsweredBehindQueued() {
	nd.ConcreteClock(true)
	be := vfNewBackend()
	// the backend connection may also break exactly when that batch is flushed
	writeFails := nd.Bool("the-flush-fails")
	if writeFails {
		be.failWriteAt = 0
	}
	c := vfNewClient(be, 4)
	c.cfg = vfCompressCfg(true, 1)
	if err := c.initFilters(); err != nil {
		panic(err)
	}
	first := newSimpleRequest(newStringArray("ping"))
	banned := newSimpleRequest(newStringArray("append", "k", "v"))
	c.Send(first)
	c.Send(banned) // both are pending before the writer runs
	started := false
	go func() { c.Start(); started = true }()
	nd.PanicLabel("client")
	nd.Quiesce()
	nd.Assert(vfDone(banned.done) && banned.Response().Type == Error, "the disabled command is answered by the proxy")
	nd.Class("unflushed-behind-filtered-request", true)
	nd.Assert(vfDone(first.done), "a request encoded before a locally answered one is flushed to the backend and answered (it does not wait for later traffic)")
	if writeFails {
		// every request is answered exactly once (a second completion is a crash, reported as a
		// panic obligation) and the broken connection ends
		nd.Assert(first.Response().Type == Error, "a request whose bytes could not be written is answered with an error")
		nd.Assert(started, "a connection whose write failed ends")
		nd.Cover("flush-failed")
		return
	}
	nd.Assert(!started, "the connection stays up")
	nd.Cover("answered")
	c.Stop()
	nd.Quiesce()
}
