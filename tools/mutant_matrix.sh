#!/bin/bash
# runs every mutant in /verif/mutants against the quick check of its property
out=${1:-/tmp/mutmatrix}; mkdir -p $out
run_one() {
  f=$1; id=$(basename $f .diff); prop=${id%%-*}
  mkdir -p /tmp/mutwork/$id; cp $f /tmp/mutwork/$id/patch.diff
  r=$(/verif/tools/try_seed.sh /tmp/mutwork/$id/patch.diff $prop 2>&1)
  if echo "$r" | grep -q "patch does not apply"; then echo "$id PATCH-DOES-NOT-APPLY";
  elif echo "$r" | grep -q "^VIOLATION"; then echo "$id CAUGHT $(echo "$r" | grep -m1 'assertion=' | sed 's/.*assertion=//' | cut -c1-80)";
  elif echo "$r" | grep -q "exit=0"; then echo "$id MISSED";
  else echo "$id OTHER $(echo "$r" | grep -m1 INCONCL | cut -c1-200)"; fi
  rm -rf /tmp/mutwork/$id
}
export -f run_one
ls /verif/mutants/*.diff | xargs -P 3 -I{} bash -c 'run_one {}' > $out/result.txt 2>&1
sort $out/result.txt
