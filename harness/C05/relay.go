//vf:pkg proc/tcp
package tcp

import (
	"net"
	"sync"
	"time"

	"github.com/samaritan-proxy/samaritan/host"
	netutil "github.com/samaritan-proxy/samaritan/proc/internal/net"

	nd "github.com/samaritan-proxy/samaritan/vfnd"
)

// VfC05_OneDirection: the copy loop of one direction relays exactly the bytes read, in order,
// nothing after an error; on end of stream it half-closes the destination after the last byte and
// stops reading the source; it fully closes only when a half-close is not possible.
func VfC05_OneDirection() {
	nd.ConcreteClock(true)
	bufSize = nd.Param("bufsize", 4) // "many buffer sizes" within the bound
	var log []string
	src := &vfConn{name: "src", failAt: -1, slowWriteAt: -1, log: &log}
	dst := &vfConn{name: "dst", failAt: -1, slowWriteAt: -1, log: &log}
	src.checkDeadline = true
	if nd.Bool("receiver-stalls") {
		dst.slowWriteAt = nd.Concrete(nd.IntRange("slowat", 0, 1))
	}
	sent := vfScript(src, nd.Param("reads", 3), nd.Param("chunk", 6))
	if nd.Bool("write-fails") {
		dst.failAt = nd.Concrete(nd.IntRange("failat", 0, 2))
		dst.short = nd.Bool("short")
	}
	dst.noHalf = nd.Bool("no-half-close")
	p := vfNewTCPProc(0)
	nd.PanicLabel("relay")
	ws, wd := netutil.New(src), netutil.New(dst)
	ws.SetReadTimeout(*p.cfg.IdleTimeout) // as HandleConn / dial do
	wd.SetReadTimeout(*p.cfg.IdleTimeout)
	p.pipeConn(ws, wd)
	// what arrived is a prefix of what was sent, complete unless a write failed
	nd.Assert(len(dst.written) <= len(sent) && vfBytesEq(dst.written, sent[:len(dst.written)]), "the destination receives the source's bytes, unmodified and in order")
	nd.Assert(vfCount(log, "WTIMEOUT:dst") == 0, "a slow receiver is waited for: no write deadline is in force when no write time-out is configured")
	wfailed := dst.failAt >= 0 && dst.nwrites > dst.failAt
	if !wfailed {
		nd.Assert(len(dst.written) == len(sent), "without a write failure every byte read is delivered")
		nd.Cover("all-delivered")
	} else {
		nd.Assert(dst.nwrites == dst.failAt+1, "nothing is written after a failed or short write")
	}
	cw, lastW := vfIndex(log, "CW:dst"), vfLastIndex(log, "W:dst")
	nd.Assert(vfCount(log, "CW:dst") == 1 && cw > lastW, "the destination is half-closed exactly once, after the last byte")
	nd.Assert(vfCount(log, "CR:src") == 1, "the source's read side is shut down")
	nd.Assert((vfCount(log, "C:dst") == 1) == dst.noHalf, "a full close happens only when the half-close fails")
	if src.readErr == nil && !wfailed {
		nd.Assert(vfIndex(log, "EOF:src") >= 0 && cw > vfIndex(log, "EOF:src"), "end of stream is signalled only after the source's end was seen")
	}
	nd.Assert(!src.pastDeadline, "the idle deadline of a source that keeps sending lies in the future whenever it is armed (time spent writing to a slow receiver is not idleness of the sender)")
}

// VfC05_IdlePacing: a sender that pauses between its chunks - each pause shorter than the idle
// time-out, their sum possibly much longer - is not idle: every byte is relayed and the stream
// ends with the sender's own end of stream. The connection double honours read deadlines the way
// a socket does: bytes that arrive after the deadline in force find the read already given up.
func VfC05_IdlePacing() {
	nd.ConcreteClock(true)
	bufSize = 4
	var log []string
	src := &vfConn{name: "src", failAt: -1, slowWriteAt: -1, log: &log}
	dst := &vfConn{name: "dst", failAt: -1, slowWriteAt: -1, log: &log}
	n := nd.Param("reads", 3)
	// every look at the executor's concrete clock lets one unit pass: pauses and time-out are
	// scaled so that this does not matter (natively a unit is 10 ms and nothing is added)
	scale := 1
	if nd.Symbolic() {
		scale = 100
	}
	var sent []byte
	for i := 0; i < n; i++ {
		b := nd.Bytes("data", []int{2, bufSize}[nd.Concrete(nd.Choice("chunk-fills-the-buffer", 2))])
		src.reads = append(src.reads, b)
		sent = append(sent, b...)
		src.gaps = append(src.gaps, scale*[]int{0, 4, 8}[nd.Concrete(nd.Choice("pause", 3))]) // idle time-out: 10*scale units
	}
	src.gaps = append(src.gaps, scale*[]int{0, 8}[nd.Concrete(nd.Choice("pause-before-eof", 2))])
	p := vfNewTCPProc(0)
	idle := time.Duration(10*scale) * nd.Unit()
	p.cfg.IdleTimeout = &idle
	nd.PanicLabel("relay")
	ws, wd := netutil.New(src), netutil.New(dst)
	ws.SetReadTimeout(*p.cfg.IdleTimeout) // as HandleConn / dial do
	wd.SetReadTimeout(*p.cfg.IdleTimeout)
	p.pipeConn(ws, wd)
	nd.Assert(vfCount(log, "TIMEOUT:src") == 0, "a sender that never pauses for as long as the idle time-out is not timed out")
	nd.Assert(len(dst.written) == len(sent) && vfBytesEq(dst.written, sent), "every byte of a sender that pauses between chunks is delivered")
	nd.Assert(vfIndex(log, "EOF:src") >= 0 && vfIndex(log, "CW:dst") > vfIndex(log, "EOF:src"), "end of stream is signalled only after the source's end was seen")
	nd.Cover("paced")
}

// VfC05_BufferReuse: two relays that share a pooled buffer (sync.Pool may return a buffer that was
// put back before) still deliver their own bytes.
func VfC05_BufferReuse() {
	nd.PoolReuse(true)
	bufSize = 4
	p := vfNewTCPProc(0)
	for round := 0; round < 2; round++ {
		var log []string
		src := &vfConn{name: "src", failAt: -1, slowWriteAt: -1, log: &log}
		dst := &vfConn{name: "dst", failAt: -1, slowWriteAt: -1, log: &log}
		sent := vfScript(src, 2, 5)
		p.pipeConn(netutil.New(src), netutil.New(dst))
		if src.readErr == nil {
			nd.Assert(vfBytesEq(dst.written, sent), "a relay using a recycled buffer delivers exactly its own bytes")
		}
	}
	nd.Cover("two-rounds")
	// after the relays, two users asking for a buffer at the same time never get the same one
	x, y := getBuffer(), getBuffer()
	nd.Assert(&x[0] != &y[0], "two simultaneous users never get the same pooled buffer")
}

// vfYieldConn is a vfConn whose reads and writes are scheduling points (they take a lock shared by
// the harness's connections, as a socket operation enters the kernel).
type vfYieldConn struct {
	vfConn
	mu *sync.Mutex
}

func (c *vfYieldConn) Read(p []byte) (int, error) {
	c.mu.Lock()
	c.mu.Unlock()
	return c.vfConn.Read(p)
}

func (c *vfYieldConn) Write(p []byte) (int, error) {
	c.mu.Lock()
	c.mu.Unlock()
	return c.vfConn.Write(p)
}

// VfC05_ConcurrentRelays: after an earlier bulk transfer (one read larger than a few KiB, which
// exercises whatever buffer sizing the relay does) has ended and returned its buffers, two relays
// run at the same time with their reads and writes interleaving: each peer receives its own
// stream's bytes. (Buffers are pooled: a buffer handed to two relays at once would leak one
// connection's bytes into another.)
func VfC05_ConcurrentRelays() {
	nd.PoolReuse(true)
	// the production buffer size is kept here: buffer sizing decisions depend on it
	p := vfNewTCPProc(0)
	var log []string
	bulk := make([]byte, nd.Param("bulk", 3000))
	for i := range bulk {
		bulk[i] = 'x'
	}
	src0 := &vfConn{name: "src0", failAt: -1, slowWriteAt: -1, log: &log, reads: [][]byte{bulk}}
	dst0 := &vfConn{name: "dst0", failAt: -1, slowWriteAt: -1, log: &log}
	nd.PanicLabel("relay")
	p.pipeConn(netutil.New(src0), netutil.New(dst0))
	nd.Assert(len(dst0.written) == len(bulk), "the bulk transfer is delivered")
	var mu sync.Mutex
	var srcs, dsts [2]*vfYieldConn
	payload := [2][]byte{nd.Bytes("a", 2), nd.Bytes("b", 2)}
	for i := 0; i < 2; i++ {
		srcs[i] = &vfYieldConn{vfConn: vfConn{name: "src", failAt: -1, slowWriteAt: -1, log: &log, reads: [][]byte{payload[i]}}, mu: &mu}
		dsts[i] = &vfYieldConn{vfConn: vfConn{name: "dst", failAt: -1, slowWriteAt: -1, log: &log}, mu: &mu}
	}
	for i := 0; i < 2; i++ {
		i := i
		go func() { p.pipeConn(netutil.New(srcs[i]), netutil.New(dsts[i])) }()
	}
	nd.Quiesce()
	for i := 0; i < 2; i++ {
		nd.Assert(vfBytesEq(dsts[i].written, payload[i]), "of two relays running at the same time each peer receives its own stream's bytes")
	}
	nd.Cover("two-at-once")
}

// VfC05_BothDirections: HandleConn relays both directions; when one side finishes sending, the
// other direction keeps flowing until it is finished too (no full close before that); when the
// chosen host is removed from the service both connections are closed; HandleConn returns only
// after both directions ended.
func VfC05_BothDirections() {
	nd.ConcreteClock(true)
	bufSize = 4
	var log []string
	h := host.New("m1:1")
	p := vfNewTCPProc(0, h)
	client := vfNewIdleConn("client", &log)
	backend := vfNewIdleConn("backend", &log)
	client.idle, backend.idle = *p.cfg.IdleTimeout, *p.cfg.IdleTimeout
	c2b, b2c := nd.Bytes("c2b", 3), nd.Bytes("b2c", 5)
	client.reads, backend.reads = [][]byte{c2b}, [][]byte{b2c}
	oldDial := dialTimeout
	defer func() { dialTimeout = oldDial }()
	dialTimeout = func(network, address string, timeout time.Duration) (net.Conn, error) { return backend, nil }
	returned := false
	go func() { p.HandleConn(client); returned = true }()
	nd.PanicLabel("handle-conn")
	nd.Quiesce()
	nd.Assert(!returned, "the relay stays up while both sides keep their connection open")
	nd.Assert(vfBytesEq(backend.written, c2b) && vfBytesEq(client.written, b2c), "both directions are relayed while the connection is up")
	nd.Assert(!client.shortDeadline && !backend.shortDeadline, "the idle deadline armed on either side is the configured idle time-out, not a shorter one (e.g. the connect time-out)")
	nd.Assert(vfCount(log, "C:client") == 0 && vfCount(log, "C:backend") == 0, "no connection is closed while both sides are still sending")
	switch nd.Concrete(nd.IntRange("event", 0, 2)) {
	case 0: // the client finishes sending first; the backend still has data
		close(client.release)
		nd.Quiesce()
		nd.Assert(!returned, "one finished direction does not end the relay")
		nd.Assert(vfCount(log, "CW:backend") == 1, "the backend sees end-of-stream from the client (half-close)")
		nd.Assert(vfCount(log, "C:client") == 0 && vfCount(log, "C:backend") == 0, "the opposite direction is left open")
		// the backend goes on sending for longer than the idle time-out in total, never pausing
		// for that long: all of it reaches the client, who only stopped sending
		for i := 0; i < 2; i++ {
			nd.AdvanceClock(8) // idle time-out: 10 units
			backend.reads = append(backend.reads, []byte("tail"))
			backend.pos = len(backend.reads) - 1
			backend.kick()
			nd.Quiesce()
		}
		nd.Assert(vfCount(log, "WTIMEOUT:client") == 0 && vfBytesEq(client.written, append(append([]byte{}, b2c...), "tailtail"...)), "data in the opposite direction keeps flowing after one side finished sending, for longer than the idle time-out")
		close(backend.release)
		nd.Quiesce()
		nd.Cover("half-close-then-finish")
	case 1: // the backend finishes first
		close(backend.release)
		nd.Quiesce()
		nd.Assert(!returned && vfCount(log, "CW:client") == 1, "the client sees end-of-stream from the backend, the relay continues")
		close(client.release)
		nd.Quiesce()
	case 2: // the host is removed from the service
		p.OnSvcHostRemove([]*host.Host{host.New("m1:1")})
		nd.Quiesce()
		nd.Assert(backend.closed && client.closed, "established connections to a removed host are closed")
		nd.Cover("closed-on-removal")
	}
	nd.Assert(returned, "HandleConn returns once both directions have ended")
	nd.Assert(backend.closed, "the backend connection is closed at the end")
	nd.Assert(nd.AllFinished(), "no goroutine of the relay remains")
}
