//vf:pkg proc/redis
package redis

import (
	nd "github.com/samaritan-proxy/samaritan/vfnd"
)

// VfC20_Requests: once a request is finished — answered locally, rejected, forwarded and answered
// by the backend with a value or an error, or redirected once and then answered — total requests
// equal successful plus failed requests at the downstream, the upstream and the per-command level.
func VfC20_Requests() {
	nd.ConcreteClock(true) // the counters do not depend on durations (histograms are outside the claim)
	a, b := "10.0.0.1:7000", "10.0.0.2:7000"
	p, clients := vfNewProc(nil, a, b)
	for _, c := range clients {
		c.onRedirection = p.u.handleRedirection
		c.onClusterDown = p.u.handleClusterDown
	}
	p.u.slots[vfSlotOfKey("k")] = &instance{Addr: a}
	p.u.slots[vfSlotOfKey("v")] = &instance{Addr: b}
	cmds := []string{"get", "ping", "nosuchcmd", "del"}
	cmd := cmds[nd.Concrete(nd.Choice("cmd", len(cmds)))]
	raw := newRawRequest(newStringArray(cmd, "k", "v"))
	nd.PanicLabel("request-stats")
	stopEarly := nd.Bool("upstream-told-to-quit-before-the-request")
	stopOnRedirect := !stopEarly && nd.Bool("upstream-told-to-quit-before-the-redirection")
	if stopEarly {
		close(p.u.quit) // the service is stopping: requests still in the pipe are refused by the upstream
		nd.Cover("refused-by-stopping-upstream")
	}
	p.handleRequest(raw)
	// drive every forwarded request to completion
	moved := 0
	for round := 0; round < 3 && !vfDone(raw.done); round++ {
		for _, addr := range []string{a, b} {
			c := clients[addr]
			for r := vfTake(c); r != nil; r = vfTake(c) {
				var reply *RespValue
				switch nd.Concrete(nd.IntRange("reply", 0, 3)) {
				case 0:
					reply = newBulkString("x")
				case 1:
					reply = newError("ERR boom")
				case 2:
					if moved == 0 {
						moved++
						reply = newError("MOVED 1 " + b)
						nd.Cover("redirected")
						if stopOnRedirect {
							close(p.u.quit)
						}
					} else {
						reply = newInteger(1)
					}
				case 3:
					reply = newError("CLUSTERDOWN Hash slot not served")
				}
				c.handleResp(r, reply)
			}
		}
	}
	nd.Assert(vfDone(raw.done), "the request is finished")
	d, u := p.stats.Downstream, p.stats.Upstream
	nd.Assert(d.RqTotal.Value() == d.RqSuccessTotal.Value()+d.RqFailureTotal.Value(), "downstream total requests = success + failure at quiescence")
	nd.Assert(u.RqTotal.Value() == u.RqSuccessTotal.Value()+u.RqFailureTotal.Value(), "upstream total requests = success + failure at quiescence")
	if h, ok := p.findHandler(cmd); ok {
		nd.Assert(h.stats.Total.Value() == h.stats.Success.Value()+h.stats.Error.Value(), "per-command total = success + error at quiescence")
		nd.Assert(h.stats.Total.Value() == 1, "the command is counted once")
	}
}

