#!/usr/bin/env python3
# Assembles /verif/DESIGN.md from tools/design_part1.md (as built, with generated tables) and
# tools/design_part2.md (the original design text).
import json,glob,os,subprocess,re
p1=open('/verif/tools/design_part1.md').read()
p2=open('/verif/tools/design_part2.md').read()
# property table
rows=[]
for f in sorted(glob.glob('/verif/checks/C*.json')):
    d=json.load(open(f))
    rows.append(f"### {d['property']}\n")
    rows.append("| Obligation | Real functions executed (suffixes) | What is decided | Bounds | Stubs / assumptions beyond I.3 |\n|---|---|---|---|---|")
    for o in d['obligations']:
        enc=', '.join('`'+e+'`' for e in o.get('encodes',[])) or '(shared harness)'
        stubs='; '.join(o.get('stubs',[])) or '—'
        rows.append(f"| `{o['id']}` ({o['fn']}) | {enc} | {o['desc']} | {o['bounds']} | {stubs} |")
    if d.get('outside_claim'):
        rows.append("\nOutside the claim: "+'; '.join(d['outside_claim'])+".\n")
ptable='\n'.join(rows)
# findings
k=json.load(open('/verif/known_findings.json'))
fr=["| Status | Property | Commit | Obligation / class | What failed |","|---|---|---|---|---|"]
for e in k:
    fr.append(f"| {e['status']} | {e['property']} | {e.get('commit','—')} | `{e.get('obligation','')}` / {e.get('class') or '—'} | {e['what']} |")
ftable='\n'.join(fr)
def matrix(path,title,kind):
    if not os.path.exists(path): return f"*{title}: not run yet.*"
    lines=[l.strip() for l in open(path) if l.strip()]
    out=[f"**{title}** (`{os.path.basename(path)}`; CAUGHT = exit 1 with a VIOLATION line whose counterexample replayed; MISSED = exit 0):\n","| Change | Check | Result | First failing assertion |","|---|---|---|---|"]
    for l in sorted(lines):
        parts=l.split(' ',3 if kind=='seed' else 2)
        if kind=='seed':
            cid,chk,res=parts[0],parts[1],parts[2]; rest=parts[3] if len(parts)>3 else ''
        else:
            cid,res=parts[0],parts[1]; chk=cid.split('-')[0]; rest=parts[2] if len(parts)>2 else ''
        out.append(f"| {cid} | {chk} | {res} | {rest[:110].replace('|','/')} |")
    return '\n'.join(out)
stable=matrix('/verif/results/seed_matrix.txt','Seeded changes (sub-agents)','seed')
notes='/verif/results/seed_notes.md'
if os.path.exists(notes): stable+='\n\n'+open(notes).read()
mtable=matrix('/verif/results/mutant_matrix.txt','Mutants (tools/make_mutants.py, DESIGN Part II appendix F)','mut')
mn='/verif/results/mutant_notes.md'
if os.path.exists(mn): mtable+='\n\n'+open(mn).read()
p1=p1.replace('@@PROPERTY_TABLE@@',ptable).replace('@@FINDINGS_TABLE@@',ftable).replace('@@SEED_TABLE@@',stable).replace('@@MUTANT_TABLE@@',mtable)
open('/verif/DESIGN.md','w').write(p1+p2)
print('DESIGN.md written',len((p1+p2).splitlines()),'lines')
