//vf:pkg proc/redis
package redis

import (
	nd "github.com/samaritan-proxy/samaritan/vfnd"
)

// VfC03_WireIdentity: what a client sends is what the owning node receives, and what the node
// answers is what the client receives, byte for byte, through the real decoder -> handler ->
// encoder on both sides: a SET whose key and value are arbitrary bytes of length 0..2 (the empty
// string is a value, not "no value"), and a reply of each kind (bulk incl. empty and null, integer,
// status, array holding an empty and a null bulk string).
func VfC03_WireIdentity() {
	a := "10.0.0.1:7000"
	p, clients := vfNewProc(nil, a)
	for i := range p.u.slots {
		p.u.slots[i] = nil
	}
	key := nd.Bytes("k", nd.Concrete(nd.IntRange("klen", 1, 2)))
	val := nd.Bytes("v", nd.Concrete(nd.IntRange("vlen", 0, 2)))
	wire := []byte("*3\r\n$3\r\nset\r\n$")
	wire = append(wire, byte('0'+len(key)), '\r', '\n')
	wire = append(wire, key...)
	wire = append(wire, '\r', '\n', '$', byte('0'+len(val)), '\r', '\n')
	wire = append(wire, val...)
	wire = append(wire, '\r', '\n')
	nd.PanicLabel("wire-identity")
	dec := newDecoder(&vfChunkReader{data: wire}, 4096)
	v, err := dec.Decode()
	nd.Assert(err == nil && v != nil, "the request decodes")
	if err != nil || v == nil {
		return
	}
	raw := newRawRequest(v)
	p.handleRequest(raw) // no slot is loaded: the command goes to the only seed host
	sreq := vfTake(clients[a])
	nd.Assert(sreq != nil, "the command is forwarded")
	if sreq == nil {
		return
	}
	sink := &vfSink{}
	enc := newEncoder(sink, 8192)
	nd.Assert(enc.Encode(sreq.Body()) == nil && enc.Flush() == nil, "the request is encoded for the node")
	nd.Assert(vfBytesEq(sink.b, wire), "the node receives exactly the bytes the client sent (empty values stay empty, not null)")
	// the node's answer
	var rwire []byte
	switch nd.Concrete(nd.Choice("reply", 6)) {
	case 0:
		rwire = append([]byte("$"), byte('0'+len(val)), '\r', '\n')
		rwire = append(append(rwire, val...), '\r', '\n')
	case 1:
		rwire = []byte("$-1\r\n")
	case 2:
		rwire = []byte(":-7\r\n")
	case 3:
		rwire = []byte("+OK\r\n")
	case 4:
		rwire = []byte("*3\r\n$0\r\n\r\n$-1\r\n*-1\r\n")
	case 5:
		rwire = []byte("*0\r\n")
	}
	rdec := newDecoder(&vfChunkReader{data: rwire}, 8192)
	rv, rerr := rdec.Decode()
	nd.Assert(rerr == nil && rv != nil, "the node's reply decodes")
	if rerr != nil || rv == nil {
		return
	}
	sreq.SetResponse(rv)
	nd.Assert(vfDone(raw.done), "the client's request is answered")
	out := &vfSink{}
	oenc := newEncoder(out, 8192)
	nd.Assert(oenc.Encode(raw.Response()) == nil && oenc.Flush() == nil, "the reply is encoded for the client")
	nd.Assert(vfBytesEq(out.b, rwire), "the client receives exactly the bytes the node answered (null, empty and nested values kept apart)")
	nd.Cover("both-ways")
}
