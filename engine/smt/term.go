// Package smt: hash-consed SMT term DAG over Bool and fixed-width bit-vectors (<= 64 bits),
// with eager constant folding and light simplification, and SMT-LIB2 printing.
package smt

import (
	"fmt"
	"math/bits"
	"strings"
)

type Op uint8

const (
	OpConst Op = iota
	OpVar
	OpNot
	OpAnd
	OpOr
	OpEq
	OpIte
	OpAdd
	OpSub
	OpMul
	OpUDiv
	OpSDiv
	OpURem
	OpSRem
	OpBAnd
	OpBOr
	OpBXor
	OpBNot
	OpNeg
	OpShl
	OpLshr
	OpAshr
	OpUlt
	OpUle
	OpSlt
	OpSle
	OpExtract
	OpZext
	OpSext
	OpConcat
)

var opNames = map[Op]string{
	OpNot: "not", OpAnd: "and", OpOr: "or", OpEq: "=", OpIte: "ite",
	OpAdd: "bvadd", OpSub: "bvsub", OpMul: "bvmul", OpUDiv: "bvudiv", OpSDiv: "bvsdiv",
	OpURem: "bvurem", OpSRem: "bvsrem", OpBAnd: "bvand", OpBOr: "bvor", OpBXor: "bvxor",
	OpBNot: "bvnot", OpNeg: "bvneg", OpShl: "bvshl", OpLshr: "bvlshr", OpAshr: "bvashr",
	OpUlt: "bvult", OpUle: "bvule", OpSlt: "bvslt", OpSle: "bvsle", OpConcat: "concat",
}

// Term is an immutable DAG node. W == 0 means sort Bool, otherwise (_ BitVec W).
type Term struct {
	ID   int
	Op   Op
	W    int
	Args [3]*Term
	N    int    // number of args
	Val  uint64 // constant value (Bool: 0/1)
	A, B int    // extract hi/lo ; ext amount in A
	Name string // variables
}

func (t *Term) IsConst() bool { return t.Op == OpConst }
func (t *Term) IsBool() bool  { return t.W == 0 }
func (t *Term) IsTrue() bool  { return t.Op == OpConst && t.W == 0 && t.Val == 1 }
func (t *Term) IsFalse() bool { return t.Op == OpConst && t.W == 0 && t.Val == 0 }

type key struct {
	op      Op
	w       int
	val     uint64
	a, b    int
	x, y, z int
	name    string
}

// Ctx owns an intern table. Not safe for concurrent use.
type Ctx struct {
	tab   map[key]*Term
	Terms []*Term
	True  *Term
	False *Term
	nvar  int
}

func NewCtx() *Ctx {
	c := &Ctx{tab: map[key]*Term{}}
	c.True = c.mk(OpConst, 0, 1, 0, 0, "")
	c.False = c.mk(OpConst, 0, 0, 0, 0, "")
	return c
}

func id(t *Term) int {
	if t == nil {
		return -1
	}
	return t.ID
}

func (c *Ctx) mk(op Op, w int, val uint64, a, b int, name string, args ...*Term) *Term {
	var ar [3]*Term
	copy(ar[:], args)
	k := key{op, w, val, a, b, id(ar[0]), id(ar[1]), id(ar[2]), name}
	if t, ok := c.tab[k]; ok {
		return t
	}
	t := &Term{ID: len(c.Terms), Op: op, W: w, Args: ar, N: len(args), Val: val, A: a, B: b, Name: name}
	c.tab[k] = t
	c.Terms = append(c.Terms, t)
	return t
}

func mask(w int) uint64 {
	if w >= 64 {
		return ^uint64(0)
	}
	return (uint64(1) << uint(w)) - 1
}

func sx(v uint64, w int) int64 {
	if w >= 64 {
		return int64(v)
	}
	sh := uint(64 - w)
	return int64(v<<sh) >> sh
}

func (c *Ctx) BV(v uint64, w int) *Term {
	if w <= 0 || w > 64 {
		panic(fmt.Sprintf("smt: bad width %d", w))
	}
	return c.mk(OpConst, w, v&mask(w), 0, 0, "")
}
func (c *Ctx) Bool(b bool) *Term {
	if b {
		return c.True
	}
	return c.False
}

// Var creates (or returns) a variable with the given unique name.
func (c *Ctx) Var(name string, w int) *Term {
	return c.mk(OpVar, w, 0, 0, 0, name)
}

// Fresh creates a variable with a fresh suffix.
func (c *Ctx) Fresh(prefix string, w int) *Term {
	c.nvar++
	return c.Var(fmt.Sprintf("%s!%d", prefix, c.nvar), w)
}

func (c *Ctx) Not(a *Term) *Term {
	if a.IsConst() {
		return c.Bool(a.Val == 0)
	}
	if a.Op == OpNot {
		return a.Args[0]
	}
	return c.mk(OpNot, 0, 0, 0, 0, "", a)
}

func (c *Ctx) And(a, b *Term) *Term {
	if a.IsConst() {
		if a.Val == 1 {
			return b
		}
		return c.False
	}
	if b.IsConst() {
		if b.Val == 1 {
			return a
		}
		return c.False
	}
	if a == b {
		return a
	}
	if (a.Op == OpNot && a.Args[0] == b) || (b.Op == OpNot && b.Args[0] == a) {
		return c.False
	}
	if a.ID > b.ID {
		a, b = b, a
	}
	return c.mk(OpAnd, 0, 0, 0, 0, "", a, b)
}

func (c *Ctx) Or(a, b *Term) *Term {
	if a.IsConst() {
		if a.Val == 0 {
			return b
		}
		return c.True
	}
	if b.IsConst() {
		if b.Val == 0 {
			return a
		}
		return c.True
	}
	if a == b {
		return a
	}
	if (a.Op == OpNot && a.Args[0] == b) || (b.Op == OpNot && b.Args[0] == a) {
		return c.True
	}
	if a.ID > b.ID {
		a, b = b, a
	}
	return c.mk(OpOr, 0, 0, 0, 0, "", a, b)
}

func (c *Ctx) AndN(ts ...*Term) *Term {
	r := c.True
	for _, t := range ts {
		r = c.And(r, t)
	}
	return r
}
func (c *Ctx) OrN(ts ...*Term) *Term {
	r := c.False
	for _, t := range ts {
		r = c.Or(r, t)
	}
	return r
}
func (c *Ctx) Implies(a, b *Term) *Term { return c.Or(c.Not(a), b) }

func (c *Ctx) Eq(a, b *Term) *Term {
	if a.W != b.W {
		panic(fmt.Sprintf("smt: Eq width mismatch %d vs %d", a.W, b.W))
	}
	if a == b {
		return c.True
	}
	if a.IsConst() && b.IsConst() {
		return c.Bool(a.Val == b.Val)
	}
	if a.W == 0 {
		if a.IsConst() {
			a, b = b, a
		}
		if b.IsConst() {
			if b.Val == 1 {
				return a
			}
			return c.Not(a)
		}
	}
	// (= (ite c k1 k2) k3) with constants
	if b.IsConst() && a.Op == OpIte {
		return c.eqIteConst(a, b, 0)
	}
	if a.IsConst() && b.Op == OpIte {
		return c.eqIteConst(b, a, 0)
	}
	// zext(x) == const
	if b.IsConst() && a.Op == OpZext {
		x := a.Args[0]
		if b.Val > mask(x.W) {
			return c.False
		}
		return c.Eq(x, c.BV(b.Val, x.W))
	}
	if a.IsConst() && b.Op == OpZext {
		return c.Eq(b, a)
	}
	if a.ID > b.ID {
		a, b = b, a
	}
	return c.mk(OpEq, 0, 0, 0, 0, "", a, b)
}

func (c *Ctx) eqIteConst(ite, k *Term, depth int) *Term {
	if depth > 40 {
		return c.mkEq(ite, k)
	}
	t, e := ite.Args[1], ite.Args[2]
	var te, ee *Term
	if t.IsConst() {
		te = c.Bool(t.Val == k.Val)
	} else if t.Op == OpIte {
		te = c.eqIteConst(t, k, depth+1)
	} else {
		return c.mkEq(ite, k)
	}
	if e.IsConst() {
		ee = c.Bool(e.Val == k.Val)
	} else if e.Op == OpIte {
		ee = c.eqIteConst(e, k, depth+1)
	} else {
		return c.mkEq(ite, k)
	}
	return c.Ite(ite.Args[0], te, ee)
}

func (c *Ctx) mkEq(a, b *Term) *Term {
	if a.ID > b.ID {
		a, b = b, a
	}
	return c.mk(OpEq, 0, 0, 0, 0, "", a, b)
}

func (c *Ctx) Ne(a, b *Term) *Term { return c.Not(c.Eq(a, b)) }

func (c *Ctx) Ite(cond, a, b *Term) *Term {
	if a.W != b.W {
		panic(fmt.Sprintf("smt: Ite width mismatch %d vs %d", a.W, b.W))
	}
	if cond.IsConst() {
		if cond.Val == 1 {
			return a
		}
		return b
	}
	if a == b {
		return a
	}
	if a.W == 0 {
		if a.IsTrue() && b.IsFalse() {
			return cond
		}
		if a.IsFalse() && b.IsTrue() {
			return c.Not(cond)
		}
		if a.IsTrue() {
			return c.Or(cond, b)
		}
		if a.IsFalse() {
			return c.And(c.Not(cond), b)
		}
		if b.IsTrue() {
			return c.Or(c.Not(cond), a)
		}
		if b.IsFalse() {
			return c.And(cond, a)
		}
	}
	if cond.Op == OpNot {
		return c.Ite(cond.Args[0], b, a)
	}
	return c.mk(OpIte, a.W, 0, 0, 0, "", cond, a, b)
}

func (c *Ctx) bin(op Op, a, b *Term) *Term {
	if a.W != b.W || a.W == 0 {
		panic(fmt.Sprintf("smt: %s width mismatch %d vs %d", opNames[op], a.W, b.W))
	}
	w := a.W
	if a.IsConst() && b.IsConst() {
		return c.BV(foldBin(op, a.Val, b.Val, w), w)
	}
	// identities
	switch op {
	case OpAdd:
		if a.IsConst() {
			a, b = b, a
		}
		if b.IsConst() && b.Val == 0 {
			return a
		}
		// (x + k1) + k2
		if b.IsConst() && a.Op == OpAdd && a.Args[1].IsConst() {
			return c.bin(OpAdd, a.Args[0], c.BV(a.Args[1].Val+b.Val, w))
		}
		if !b.IsConst() && a.ID > b.ID {
			a, b = b, a
		}
	case OpSub:
		if b.IsConst() {
			return c.bin(OpAdd, a, c.BV(-b.Val, w))
		}
		if a == b {
			return c.BV(0, w)
		}
		// (x + k) - x
		if a.Op == OpAdd && a.Args[0] == b {
			return a.Args[1]
		}
		if a.Op == OpAdd && a.Args[1].IsConst() && b.Op == OpAdd && b.Args[1].IsConst() && a.Args[0] == b.Args[0] {
			return c.BV(a.Args[1].Val-b.Args[1].Val, w)
		}
	case OpMul:
		if a.IsConst() {
			a, b = b, a
		}
		if b.IsConst() {
			if b.Val == 0 {
				return b
			}
			if b.Val == 1 {
				return a
			}
		}
	case OpBAnd:
		if a.IsConst() {
			a, b = b, a
		}
		if b.IsConst() {
			if b.Val == 0 {
				return b
			}
			if b.Val == mask(w) {
				return a
			}
			// zext(x) & k where k covers x's width
			if a.Op == OpZext && b.Val&mask(a.Args[0].W) == mask(a.Args[0].W) {
				return a
			}
		}
		if a == b {
			return a
		}
	case OpBOr:
		if a.IsConst() {
			a, b = b, a
		}
		if b.IsConst() {
			if b.Val == 0 {
				return a
			}
			if b.Val == mask(w) {
				return b
			}
		}
		if a == b {
			return a
		}
	case OpBXor:
		if a.IsConst() {
			a, b = b, a
		}
		if b.IsConst() && b.Val == 0 {
			return a
		}
		if a == b {
			return c.BV(0, w)
		}
	case OpShl, OpLshr, OpAshr:
		if b.IsConst() && b.Val == 0 {
			return a
		}
		if b.IsConst() && b.Val >= uint64(w) && op != OpAshr {
			return c.BV(0, w)
		}
	case OpUDiv:
		if b.IsConst() && b.Val == 1 {
			return a
		}
	}
	return c.mk(op, w, 0, 0, 0, "", a, b)
}

func (c *Ctx) Add(a, b *Term) *Term  { return c.bin(OpAdd, a, b) }
func (c *Ctx) Sub(a, b *Term) *Term  { return c.bin(OpSub, a, b) }
func (c *Ctx) Mul(a, b *Term) *Term  { return c.bin(OpMul, a, b) }
func (c *Ctx) UDiv(a, b *Term) *Term { return c.bin(OpUDiv, a, b) }
func (c *Ctx) SDiv(a, b *Term) *Term { return c.bin(OpSDiv, a, b) }
func (c *Ctx) URem(a, b *Term) *Term { return c.bin(OpURem, a, b) }
func (c *Ctx) SRem(a, b *Term) *Term { return c.bin(OpSRem, a, b) }
func (c *Ctx) BAnd(a, b *Term) *Term { return c.bin(OpBAnd, a, b) }
func (c *Ctx) BOr(a, b *Term) *Term  { return c.bin(OpBOr, a, b) }
func (c *Ctx) BXor(a, b *Term) *Term { return c.bin(OpBXor, a, b) }
func (c *Ctx) Shl(a, b *Term) *Term  { return c.bin(OpShl, a, b) }
func (c *Ctx) Lshr(a, b *Term) *Term { return c.bin(OpLshr, a, b) }
func (c *Ctx) Ashr(a, b *Term) *Term { return c.bin(OpAshr, a, b) }

func (c *Ctx) BNot(a *Term) *Term {
	if a.IsConst() {
		return c.BV(^a.Val, a.W)
	}
	if a.Op == OpBNot {
		return a.Args[0]
	}
	return c.mk(OpBNot, a.W, 0, 0, 0, "", a)
}
func (c *Ctx) Neg(a *Term) *Term {
	if a.IsConst() {
		return c.BV(-a.Val, a.W)
	}
	return c.mk(OpNeg, a.W, 0, 0, 0, "", a)
}

func (c *Ctx) cmp(op Op, a, b *Term) *Term {
	if a.W != b.W || a.W == 0 {
		panic(fmt.Sprintf("smt: %s width mismatch %d vs %d", opNames[op], a.W, b.W))
	}
	if a.IsConst() && b.IsConst() {
		switch op {
		case OpUlt:
			return c.Bool(a.Val < b.Val)
		case OpUle:
			return c.Bool(a.Val <= b.Val)
		case OpSlt:
			return c.Bool(sx(a.Val, a.W) < sx(b.Val, a.W))
		case OpSle:
			return c.Bool(sx(a.Val, a.W) <= sx(b.Val, a.W))
		}
	}
	if a == b {
		return c.Bool(op == OpUle || op == OpSle)
	}
	switch op {
	case OpUlt:
		if b.IsConst() && b.Val == 0 {
			return c.False
		}
		if a.IsConst() && a.Val == mask(a.W) {
			return c.False
		}
	case OpUle:
		if a.IsConst() && a.Val == 0 {
			return c.True
		}
		if b.IsConst() && b.Val == mask(a.W) {
			return c.True
		}
	}
	// range facts for zext: zext(x) < k
	if lo, hi, ok := c.urange(a); ok {
		if lo2, hi2, ok2 := c.urange(b); ok2 {
			sgnOK := hi <= mask(a.W)>>1 && hi2 <= mask(a.W)>>1
			switch op {
			case OpUlt:
				if hi < lo2 {
					return c.True
				}
				if lo >= hi2 {
					return c.False
				}
			case OpUle:
				if hi <= lo2 {
					return c.True
				}
				if lo > hi2 {
					return c.False
				}
			case OpSlt:
				if sgnOK {
					if hi < lo2 {
						return c.True
					}
					if lo >= hi2 {
						return c.False
					}
				}
			case OpSle:
				if sgnOK {
					if hi <= lo2 {
						return c.True
					}
					if lo > hi2 {
						return c.False
					}
				}
			}
		}
	}
	return c.mk(op, 0, 0, 0, 0, "", a, b)
}

// urange returns a cheap unsigned interval for a term, when one is syntactically evident.
func (c *Ctx) urange(t *Term) (lo, hi uint64, ok bool) {
	switch t.Op {
	case OpConst:
		return t.Val, t.Val, true
	case OpZext:
		return 0, mask(t.Args[0].W), true
	case OpIte:
		l1, h1, ok1 := c.urange(t.Args[1])
		l2, h2, ok2 := c.urange(t.Args[2])
		if ok1 && ok2 {
			if l2 < l1 {
				l1 = l2
			}
			if h2 > h1 {
				h1 = h2
			}
			return l1, h1, true
		}
	case OpBAnd:
		if t.Args[1].IsConst() {
			return 0, t.Args[1].Val, true
		}
	case OpAdd:
		l1, h1, ok1 := c.urange(t.Args[0])
		l2, h2, ok2 := c.urange(t.Args[1])
		if ok1 && ok2 {
			s, carry := bits.Add64(h1, h2, 0)
			if carry == 0 && s <= mask(t.W) {
				return l1 + l2, s, true
			}
		}
	}
	return 0, 0, false
}

func (c *Ctx) Ult(a, b *Term) *Term { return c.cmp(OpUlt, a, b) }
func (c *Ctx) Ule(a, b *Term) *Term { return c.cmp(OpUle, a, b) }
func (c *Ctx) Slt(a, b *Term) *Term { return c.cmp(OpSlt, a, b) }
func (c *Ctx) Sle(a, b *Term) *Term { return c.cmp(OpSle, a, b) }
func (c *Ctx) Ugt(a, b *Term) *Term { return c.cmp(OpUlt, b, a) }
func (c *Ctx) Uge(a, b *Term) *Term { return c.cmp(OpUle, b, a) }
func (c *Ctx) Sgt(a, b *Term) *Term { return c.cmp(OpSlt, b, a) }
func (c *Ctx) Sge(a, b *Term) *Term { return c.cmp(OpSle, b, a) }

func (c *Ctx) Extract(hi, lo int, a *Term) *Term {
	if hi < lo || hi >= a.W {
		panic("smt: bad extract")
	}
	w := hi - lo + 1
	if w == a.W {
		return a
	}
	if a.IsConst() {
		return c.BV(a.Val>>uint(lo), w)
	}
	if a.Op == OpZext || a.Op == OpSext {
		x := a.Args[0]
		if lo == 0 && w == x.W {
			return x
		}
		if lo == 0 && w < x.W {
			return c.Extract(hi, 0, x)
		}
		if a.Op == OpZext && lo >= x.W {
			return c.BV(0, w)
		}
		if lo == 0 && w > x.W {
			if a.Op == OpZext {
				return c.Zext(x, w)
			}
			return c.Sext(x, w)
		}
	}
	if a.Op == OpExtract {
		return c.Extract(hi+a.B, lo+a.B, a.Args[0])
	}
	if a.Op == OpIte && a.Args[1].IsConst() && a.Args[2].IsConst() {
		return c.Ite(a.Args[0], c.Extract(hi, lo, a.Args[1]), c.Extract(hi, lo, a.Args[2]))
	}
	return c.mk(OpExtract, w, 0, hi, lo, "", a)
}

// Zext extends a to width w (w >= a.W).
func (c *Ctx) Zext(a *Term, w int) *Term {
	if w == a.W {
		return a
	}
	if w < a.W {
		panic("smt: zext narrows")
	}
	if a.IsConst() {
		return c.BV(a.Val, w)
	}
	if a.Op == OpZext {
		return c.Zext(a.Args[0], w)
	}
	return c.mk(OpZext, w, 0, w-a.W, 0, "", a)
}

func (c *Ctx) Sext(a *Term, w int) *Term {
	if w == a.W {
		return a
	}
	if w < a.W {
		panic("smt: sext narrows")
	}
	if a.IsConst() {
		return c.BV(uint64(sx(a.Val, a.W)), w)
	}
	if a.Op == OpZext {
		return c.Zext(a.Args[0], w)
	}
	return c.mk(OpSext, w, 0, w-a.W, 0, "", a)
}

func (c *Ctx) Concat(a, b *Term) *Term {
	w := a.W + b.W
	if w > 64 {
		panic("smt: concat > 64")
	}
	if a.IsConst() && b.IsConst() {
		return c.BV(a.Val<<uint(b.W)|b.Val, w)
	}
	return c.mk(OpConcat, w, 0, 0, 0, "", a, b)
}

// Resize converts a to width w, sign- or zero-extending per signed.
func (c *Ctx) Resize(a *Term, w int, signed bool) *Term {
	if w == a.W {
		return a
	}
	if w < a.W {
		return c.Extract(w-1, 0, a)
	}
	if signed {
		return c.Sext(a, w)
	}
	return c.Zext(a, w)
}

// ---------- printing ----------

func sortStr(w int) string {
	if w == 0 {
		return "Bool"
	}
	return fmt.Sprintf("(_ BitVec %d)", w)
}

func (t *Term) leaf() bool { return t.Op == OpConst || t.Op == OpVar }

// Ref is how the term is referred to inside other terms once defined.
func (t *Term) Ref() string {
	switch t.Op {
	case OpConst:
		if t.W == 0 {
			if t.Val == 1 {
				return "true"
			}
			return "false"
		}
		return fmt.Sprintf("(_ bv%d %d)", t.Val, t.W)
	case OpVar:
		return "|" + t.Name + "|"
	}
	return fmt.Sprintf("t%d", t.ID)
}

// Body prints the defining expression, referring to arguments by Ref.
func (t *Term) Body() string {
	switch t.Op {
	case OpConst, OpVar:
		return t.Ref()
	case OpExtract:
		return fmt.Sprintf("((_ extract %d %d) %s)", t.A, t.B, t.Args[0].Ref())
	case OpZext:
		return fmt.Sprintf("((_ zero_extend %d) %s)", t.A, t.Args[0].Ref())
	case OpSext:
		return fmt.Sprintf("((_ sign_extend %d) %s)", t.A, t.Args[0].Ref())
	}
	var sb strings.Builder
	sb.WriteByte('(')
	sb.WriteString(opNames[t.Op])
	for i := 0; i < t.N; i++ {
		sb.WriteByte(' ')
		sb.WriteString(t.Args[i].Ref())
	}
	sb.WriteByte(')')
	return sb.String()
}

// Pretty prints a term fully inlined up to a size budget (for evidence / debugging).
func (t *Term) Pretty(budget int) string {
	var sb strings.Builder
	var rec func(t *Term)
	rec = func(t *Term) {
		if sb.Len() > budget {
			sb.WriteString("…")
			return
		}
		if t.leaf() {
			if t.Op == OpConst && t.W > 0 {
				fmt.Fprintf(&sb, "%d", t.Val)
			} else {
				sb.WriteString(strings.Trim(t.Ref(), "|"))
			}
			return
		}
		switch t.Op {
		case OpExtract:
			fmt.Fprintf(&sb, "(extract %d %d ", t.A, t.B)
		case OpZext:
			sb.WriteString("(zext ")
		case OpSext:
			sb.WriteString("(sext ")
		default:
			sb.WriteString("(" + opNames[t.Op] + " ")
		}
		for i := 0; i < t.N; i++ {
			if i > 0 {
				sb.WriteByte(' ')
			}
			rec(t.Args[i])
		}
		sb.WriteByte(')')
	}
	rec(t)
	return sb.String()
}

// Eval evaluates t under an assignment of variables (missing variables are 0).
func Eval(t *Term, model map[string]uint64, memo map[int]uint64) uint64 {
	if v, ok := memo[t.ID]; ok {
		return v
	}
	// iterative post-order to avoid deep recursion
	type fr struct {
		t *Term
		i int
	}
	stack := []fr{{t, 0}}
	for len(stack) > 0 {
		f := &stack[len(stack)-1]
		if _, ok := memo[f.t.ID]; ok {
			stack = stack[:len(stack)-1]
			continue
		}
		if f.i < f.t.N {
			a := f.t.Args[f.i]
			f.i++
			if _, ok := memo[a.ID]; !ok {
				stack = append(stack, fr{a, 0})
			}
			continue
		}
		memo[f.t.ID] = evalNode(f.t, model, memo)
		stack = stack[:len(stack)-1]
	}
	return memo[t.ID]
}

func b2u(b bool) uint64 {
	if b {
		return 1
	}
	return 0
}

func evalNode(t *Term, model map[string]uint64, memo map[int]uint64) uint64 {
	arg := func(i int) uint64 { return memo[t.Args[i].ID] }
	w := t.W
	switch t.Op {
	case OpConst:
		return t.Val
	case OpVar:
		return model[t.Name] & mask64(t.W)
	case OpNot:
		return 1 - arg(0)
	case OpAnd:
		return arg(0) & arg(1)
	case OpOr:
		return arg(0) | arg(1)
	case OpEq:
		return b2u(arg(0) == arg(1))
	case OpIte:
		if arg(0) == 1 {
			return arg(1)
		}
		return arg(2)
	case OpBNot:
		return ^arg(0) & mask(w)
	case OpNeg:
		return -arg(0) & mask(w)
	case OpUlt:
		return b2u(arg(0) < arg(1))
	case OpUle:
		return b2u(arg(0) <= arg(1))
	case OpSlt:
		aw := t.Args[0].W
		return b2u(sx(arg(0), aw) < sx(arg(1), aw))
	case OpSle:
		aw := t.Args[0].W
		return b2u(sx(arg(0), aw) <= sx(arg(1), aw))
	case OpExtract:
		return (arg(0) >> uint(t.B)) & mask(w)
	case OpZext:
		return arg(0)
	case OpSext:
		return uint64(sx(arg(0), t.Args[0].W)) & mask(w)
	case OpConcat:
		return (arg(0)<<uint(t.Args[1].W) | arg(1)) & mask(w)
	}
	// binary bv ops: reuse folding
	return foldBin(t.Op, arg(0), arg(1), w)
}

func mask64(w int) uint64 {
	if w == 0 {
		return 1
	}
	return mask(w)
}


func foldBin(op Op, x, y uint64, w int) uint64 {
	var r uint64
		switch op {
	case OpAdd:
		r = x + y
	case OpSub:
		r = x - y
	case OpMul:
		r = x * y
	case OpUDiv:
		if y == 0 {
			r = mask(w)
		} else {
			r = x / y
		}
	case OpURem:
		if y == 0 {
			r = x
		} else {
			r = x % y
		}
	case OpSDiv:
		sx_, sy := sx(x, w), sx(y, w)
		if sy == 0 {
			if sx_ >= 0 {
				r = mask(w)
			} else {
				r = 1
			}
		} else if sy == -1 {
			r = uint64(-sx_)
		} else {
			r = uint64(sx_ / sy)
		}
	case OpSRem:
		sx_, sy := sx(x, w), sx(y, w)
		if sy == 0 {
			r = x
		} else if sy == -1 {
			r = 0
		} else {
			r = uint64(sx_ % sy)
		}
	case OpBAnd:
		r = x & y
	case OpBOr:
		r = x | y
	case OpBXor:
		r = x ^ y
	case OpShl:
		if y >= uint64(w) {
			r = 0
		} else {
			r = x << y
		}
	case OpLshr:
		if y >= uint64(w) {
			r = 0
		} else {
			r = x >> y
		}
	case OpAshr:
		s := sx(x, w)
		if y >= uint64(w) {
			if s < 0 {
				r = mask(w)
			} else {
				r = 0
			}
		} else {
			r = uint64(s >> y)
		}
	}
	return r & mask(w)
}
