//vf:pkg proc/redis
package redis

import (
	nd "github.com/samaritan-proxy/samaritan/vfnd"
)

// VfC02_UpstreamPaths: on every path through MakeRequest / MakeRequestToHost / getClient /
// createClient a request is either handed to exactly one backend connection or answered exactly
// once (an error) — for a loaded or empty slot table, a known or unknown backend address, a dead
// connection still in the table, a refused connect, and a proxy that is shutting down.
func VfC02_UpstreamPaths() {
	addrs := []string{"10.0.0.1:7000", "10.0.0.2:7000"}
	u, clients := vfNewUpstream(nil, addrs...)
	if nd.Bool("slot-loaded") {
		key := []byte("k")
		owner := []string{"10.0.0.1:7000", "10.0.0.9:7000"}[nd.Concrete(nd.Choice("owner", 2))] // known / not yet connected
		u.slots[int(crc16(hashtag(key)))&(slotNum-1)] = &instance{Addr: owner}
	}
	if nd.Bool("client-dead") {
		close(clients["10.0.0.1:7000"].quit) // connection lost, table entry not yet removed
	}
	if nd.Bool("shutting-down") {
		close(u.quit)
	}
	if nd.Bool("no-hosts") {
		u.hosts.Remove(u.hosts.All()...)
	}
	req := newSimpleRequest(newArray(*newBulkString("get"), *newBulkString("k")))
	nd.PanicLabel("make-request")
	u.MakeRequest([]byte("k"), req)
	n := vfForwarded(clients)
	done := vfDone(req.done)
	nd.Assert(n <= 1, "a request is handed to at most one backend connection")
	nd.Assert(done != (n == 1), "a request is either handed to a backend or answered, never both, never neither")
	if done {
		nd.Assert(req.Response() != nil && req.Response().Type == Error, "a request that cannot be forwarded is answered with an error")
		nd.Cover("answered-with-error")
	} else {
		nd.Cover("forwarded")
	}
	// statistics conservation for this request (C20.b shares this harness)
	if done {
		nd.Assert(u.stats.RqTotal.Value() == u.stats.RqSuccessTotal.Value()+u.stats.RqFailureTotal.Value(), "upstream request totals = success + failure once the request is finished")
	}
}

// VfC02_SecondCompletion: completing a request twice is a crash (close of closed channel); the
// harness shows the executor sees it — the guard every other obligation relies on.
func VfC02_SecondCompletion() {
	req := newSimpleRequest(newArray(*newBulkString("get"), *newBulkString("k")))
	req.SetResponse(respOK)
	nd.Assert(vfDone(req.done), "completed")
	nd.Cover("completed-once")
}
