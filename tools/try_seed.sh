#!/bin/bash
# usage: try_seed.sh <patch.diff> <property> [extra vf check args]
# Runs the property's check against a scratch worktree of /repo with the seeded change applied
# (VF_REPO), so /repo itself is never touched and several seeds can be tried in parallel.
patch=$(readlink -f "$1"); prop=$2; shift 2
id=$(basename $(dirname "$patch"))-$prop-$$
wt=/tmp/seedrun/$id; mkdir -p /tmp/seedrun
git -C /repo worktree add --detach "$wt" HEAD >/dev/null 2>&1 || { echo "worktree failed"; exit 9; }
trap 'git -C /repo worktree remove --force "$wt" >/dev/null 2>&1' EXIT
( cd "$wt" && git apply "$patch" ) || { echo "patch does not apply"; exit 9; }
VF_REPO="$wt" /verif/bin/vf check "$prop" "$@"
rc=$?
echo "exit=$rc"
exit $rc
