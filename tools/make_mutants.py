#!/usr/bin/env python3
# Generates /verif/mutants/<id>.diff: small source changes (DESIGN.md appendix F) used to validate
# that each check can fail. Each entry: (id, property, file, old, new).
import subprocess,os,sys,shutil
M=[
 ("C01-hooks-fifo","C01","proc/redis/request.go","	for i := len(r.hooks) - 1; i >= 0; i-- {\n		hook := r.hooks[i]\n		hook(r)\n	}\n	close(r.done)\n}\n\nfunc (r *rawRequest) Response","	for i := 0; i < len(r.hooks); i++ {\n		hook := r.hooks[i]\n		hook(r)\n	}\n	close(r.done)\n}\n\nfunc (r *rawRequest) Response"),
 ("C01-mget-reverse","C01","proc/redis/request.go","		v[i] = *child.Response()","		v[len(r.children)-1-i] = *child.Response()"),
 ("C02-no-final-drain","C02","proc/redis/upstream.go","	close(c.done)\n	c.drainRequests()\n}","	close(c.done)\n}"),
 ("C02-write-fail-silent","C02","proc/redis/upstream.go","	// req and error must not be nil\n	req.SetResponse(newError(err.Error()))","	// req and error must not be nil"),
 ("C02-quit-no-reply","C02","proc/redis/upstream.go","	select {\n	case <-c.quit:\n		req.SetResponse(newError(backendExited))\n		return\n	default:\n	}\n\n	select {","	select {\n	case <-c.quit:\n		return\n	default:\n	}\n\n	select {"),
 ("C03-route-by-cmd","C03","proc/redis/handler.go","	key := body.Array[1].Text\n	u.MakeRequest(key, simpleReq)\n}\n\nfunc handleSumResultCommand","	key := body.Array[0].Text\n	u.MakeRequest(key, simpleReq)\n}\n\nfunc handleSumResultCommand"),
 ("C03-mset-wrong-key","C03","proc/redis/request.go","				v[2*i+1],\n				v[2*(i+1)],","				v[2*i+1],\n				v[2*i+1],"),
 ("C03-mod-16383","C03","proc/redis/upstream.go","inst := u.slots[hash&(slotNum-1)]","inst := u.slots[hash%(slotNum-1)]"),
 ("C04-no-ask","C04","proc/redis/upstream.go","	case bytes.EqualFold(errPrefix, []byte(MOVED)),\n		bytes.EqualFold(errPrefix, []byte(ASK)):","	case bytes.EqualFold(errPrefix, []byte(MOVED)):"),
 ("C04-cmd-before-asking","C04","proc/redis/upstream.go","		u.MakeRequestToHost(hostAddr, askingReq)\n		u.MakeRequestToHost(hostAddr, req)","		u.MakeRequestToHost(hostAddr, req)\n		u.MakeRequestToHost(hostAddr, askingReq)"),
 ("C04-resend-to-slot","C04","proc/redis/upstream.go","	hostAddr := err[2]","	hostAddr := err[1]"),
 ("C05-full-close","C05","proc/tcp/proc.go","	if err := closeWrite(dst); err != nil {\n		dst.Close()\n	}","	dst.Close()"),
 ("C05-swap","C05","proc/tcp/proc.go","	_, err := copyBuffer(dst, src, nil)","	_, err := copyBuffer(src, dst, nil)"),
 ("C06-lc-busier","C06","proc/internal/lb/lb.go","	if host1.ConnCount() < host2.ConnCount() {","	if host1.ConnCount() > host2.ConnCount() {"),
 ("C06-rr-load","C06","proc/internal/lb/lb.go","	return hosts[rrb.index.Inc()%uint64(len(hosts))]","	return hosts[rrb.index.Load()%uint64(len(hosts))]"),
 ("C06-all-hosts","C06","proc/tcp/proc.go","	healthyHosts := p.hostSet.Healthy()","	healthyHosts := p.hostSet.All()"),
 ("C07-no-remove-client","C07","proc/redis/upstream.go","		c.Start()\n		u.removeClient(addr)","		c.Start()"),
 ("C07-stale-call","C07","proc/redis/upstream.go","	u.createClientCalls.Delete(addr)\n","	\n"),
 ("C07-no-retry-trigger","C07","proc/redis/upstream.go","	// retry\n	u.triggerSlotsRefresh()\n	return","	// retry\n	return"),
 ("C08-skip-dup-test","C08","config/config.go","		_, ok := isContainEndpoint(sw.Endpoints, endpoint)\n		if ok {\n			continue\n		}\n		sw.Endpoints = append(sw.Endpoints, endpoint)","		sw.Endpoints = append(sw.Endpoints, endpoint)"),
 ("C08-no-exist-test","C08","controller/controller.go","	if _, ok := c.getProc(svcName); ok {\n		return\n	}\n	c.tryEnsureProc","	c.tryEnsureProc"),
 ("C08-add-then-remove","C08","controller/controller.go","		c.handleSvcEndpointsRemove(evt.Name, evt.Removed)\n		c.handleSvcEndpointsAdd(evt.Name, evt.Added)","		c.handleSvcEndpointsAdd(evt.Name, evt.Added)\n		c.handleSvcEndpointsRemove(evt.Name, evt.Removed)"),
 ("C09-no-done-on-early-return","C09","proc/listener.go","	defer close(l.done)\n\n	ip :=","	ip :="),
 ("C09-limit-le","C09","proc/listener.go","	if limit == 0 || uint32(len(l.conns)) < limit {","	if limit == 0 || uint32(len(l.conns)) <= limit {"),
 ("C09-stop-skips-conns","C09","proc/listener.go","	for _, conn := range conns {\n		conn.Close()\n	}","	_ = conns"),
 ("C09-register-after-stop","C09","proc/listener.go","	if l.stopped {\n		return false\n	}\n","	\n"),
 ("C09-limit-outside-lock","C09","proc/listener.go","	l.mu.Lock()\n	defer l.mu.Unlock()\n	if l.stopped {\n		return false\n	}\n	if l.connsLimit() {\n		l.stats.CxRestricted.Inc()\n		l.Warnf(\"connections limit, %s -> %s, will close\", conn.RemoteAddr().String(), l.ln.Addr().String())\n		return false\n	}","	if l.connsLimit() {\n		l.stats.CxRestricted.Inc()\n		l.Warnf(\"connections limit, %s -> %s, will close\", conn.RemoteAddr().String(), l.ln.Addr().String())\n		return false\n	}\n	l.mu.Lock()\n	defer l.mu.Unlock()\n	if l.stopped {\n		return false\n	}"),
 ("C10-bulk-neg","C10","proc/redis/codec.go","	switch {\n	case n < -1:\n		return nil, ErrBadBulkStringLen","	switch {\n	case n < 0 && n != -1 && n != -2:\n		return nil, ErrBadBulkStringLen"),
 ("C10-bulk-plus1","C10","proc/redis/codec.go","	return b[:n], nil\n}\n\nfunc (d *decoder) decodeTextBytes","	return b[:n+1], nil\n}\n\nfunc (d *decoder) decodeTextBytes"),
 ("C10-btoi-len11","C10","proc/redis/codec.go","	if len(b) != 0 && len(b) < 10 {","	if len(b) != 0 && len(b) < 20 {"),
 ("C10-itoa-max","C10","proc/redis/codec.go","	if i >= minItoa && i <= maxItoa {\n		beg := itoaOffset[i-minItoa]\n		if i == maxItoa {","	if i >= minItoa && i <= maxItoa {\n		beg := itoaOffset[i-minItoa]\n		if i == maxItoa-1 {"),
 ("C10-fill-ge","C10","proc/redis/bufio.go","	if b.r > 0 {\n		n := copy(b.buf, b.buf[b.r:b.w])","	if b.r > 1 {\n		n := copy(b.buf, b.buf[b.r:b.w])"),
 ("C10-null-bulk","C10","proc/redis/codec.go","	if b == nil {\n		return e.encodeInt(-1)\n	}\n	if err := e.encodeInt(int64(len(b))); err != nil {","	if len(b) == 0 {\n		return e.encodeInt(-1)\n	}\n	if err := e.encodeInt(int64(len(b))); err != nil {"),
 ("C11-no-depth-limit","C11","proc/redis/codec.go","	if d.depth >= maxArrayDepth {\n		return nil, ErrBadArrayDepth\n	}\n","	\n"),
 ("C11-redirect-unchecked","C11","proc/redis/upstream.go","	if len(err) != 3 || err[2] == \"\" {","	if false {"),
 ("C11-scan-unchecked","C11","proc/redis/request.go","		if resp.Type != Array || len(resp.Array) != 2 {","		if resp.Type != Array {"),
 ("C11-slot-range-unchecked","C11","proc/redis/slot.go","			if start < 0 || end >= slotNum || start > end {\n				return nil, errInvalidClusterNodes\n			}\n","			\n"),
 ("C12-tab-entry","C12","proc/redis/util.go","0x1231, 0x0210, 0x3273, 0x2252,","0x1231, 0x0210, 0x3273, 0x2253,"),
 ("C12-tag-j-eq-i","C12","proc/redis/util.go","	if j == n || j == i+1 {","	if j == n || j == i {"),
 ("C12-tag-incl-brace","C12","proc/redis/util.go","	return b[i+1 : j]","	return b[i:j]"),
 ("C12-and-slotnum","C12","proc/redis/upstream.go","inst := u.slots[hash&(slotNum-1)]","inst := u.slots[hash&slotNum%slotNum]"),
 ("C13-ge-to-gt","C13","proc/redis/filter_compress.go","	if b.Len() >= len(src) {","	if b.Len() > len(src) {"),
 ("C13-threshold-le","C13","proc/redis/filter_compress.go","		if uint32(len(r.Text)) < cfg.Threshold {","		if uint32(len(r.Text)) <= cfg.Threshold {"),
 ("C13-hset-offset2","C13","proc/redis/filter_compress.go","	case \"hset\", \"hmset\", \"hsetnx\", \"psetex\", \"setex\":\n		offset = 3","	case \"hset\", \"hmset\", \"hsetnx\", \"psetex\", \"setex\":\n		offset = 2"),
 ("C13-skip-get","C13","proc/redis/filter_compress.go","		\"incr\", \"decr\", \"incrby\", \"decrby\", // string","		\"incr\", \"decr\", \"incrby\", \"decrby\", \"get\", // string"),
 ("C13-reframe","C13","proc/redis/filter_compress.go","		if bytes.HasPrefix(r.Text, cpsHdrs[cfg.Algorithm]) {\n			continue\n		}\n","		\n"),
 ("C14-set-readonly","C14","proc/redis/handler.go","		\"bitcount\", \"bitpos\", \"get\", \"getbit\", \"getrange\", \"strlen\",","		\"bitcount\", \"bitpos\", \"get\", \"set\", \"getbit\", \"getrange\", \"strlen\","),
 ("C14-keys-supported","C14","proc/redis/handler.go","		\"restore\", \"sort\", \"ttl\", \"type\",","		\"restore\", \"sort\", \"ttl\", \"type\", \"keys\","),
 ("C14-invert-readonly","C14","proc/redis/upstream.go","	if !req.IsReadOnly() {\n		return inst.Addr, nil\n	}","	if req.IsReadOnly() {\n		return inst.Addr, nil\n	}"),
 ("C14-no-tolower","C14","proc/redis/redis.go","	hdlr, ok := p.cmdHdlrs[strings.ToLower(cmd)]","	hdlr, ok := p.cmdHdlrs[cmd]"),
 ("C15-healthy-ne0","C15","host/host.go","	if len(healthyHosts) == 0 {\n		healthyHosts = set.healthyBackup\n	}\n	return healthyHosts","	if len(healthyHosts) != 0 {\n		healthyHosts = set.healthyBackup\n	}\n	return healthyHosts"),
 ("C15-no-sort","C15","host/host.go","	sort.Strings(keys)\n","	_ = sort.Strings\n"),
 ("C15-no-mark-removed","C15","host/host.go","		member.markRemoved()\n","		\n"),
 ("C15-threshold-gt0","C15","proc/internal/hc/monitor.go","	if host.IncFailedCount() > uint64(m.config.FallThreshold) {","	if host.IncFailedCount() > 0 {"),
 ("C15-threshold-ge-OK","C15","proc/internal/hc/monitor.go","	if host.IncFailedCount() > uint64(m.config.FallThreshold) {","	if host.IncFailedCount() >= uint64(m.config.FallThreshold) {"),
 ("C16-no-clean-subch","C16","config/discovery.go","	c.cleanSubChLocked()\n	c.cleanUnsubChLocked()\n	c.RUnlock()","	c.cleanUnsubChLocked()\n	c.RUnlock()"),
 ("C16-no-map-delete","C16","config/discovery.go","	delete(c.subscribed, svcName)\n	c.unsubCh <- svcName","	c.unsubCh <- svcName"),
 ("C17-len-check-b2","C17","cmd/samaritan/hotrestart/rpc.go","	if n-3 < int(msg.Len) {","	if n-2 < int(msg.Len) {"),
 ("C17-data-from-len","C17","cmd/samaritan/hotrestart/rpc.go","	msg.Data = b[3 : 3+msg.Len]","	msg.Data = b[3:n]"),
 ("C17-swap-handlers","C17","cmd/samaritan/hotrestart/hotrestart.go","		case shutdownLocalConfReq:\n			handle = r.handleShutdownLocalConfRequest\n		case shutdownAdminReq:\n			handle = r.handleShutdownAdminRequest","		case shutdownLocalConfReq:\n			handle = r.handleShutdownAdminRequest\n		case shutdownAdminReq:\n			handle = r.handleShutdownLocalConfRequest"),
 ("C17-kill-before-reply","C17","cmd/samaritan/hotrestart/hotrestart.go","	resp := newTerminateParentResponse()\n	sendMessage(from, resp)\n	kill(os.Getpid(), syscall.SIGTERM)","	resp := newTerminateParentResponse()\n	kill(os.Getpid(), syscall.SIGTERM)\n	sendMessage(from, resp)"),
 ("C18-shift-47","C18","proc/redis/request.go","	nodeIdx := uint16(cursor >> 48)","	nodeIdx := uint16(cursor >> 47)"),
 ("C18-scan-gt","C18","proc/redis/handler.go","	if nodeIdx >= uint16(len(hosts)) {","	if nodeIdx > uint16(len(hosts)) {"),
 ("C18-no-increment","C18","proc/redis/request.go","		if nodeNextCursor == 0 {\n			r.nodeIdx++\n		}","		if nodeNextCursor == 0 {\n		}"),
 ("C19-evict-tail","C19","proc/redis/hotkey/counter.go","	fnode := c.freqHead\n	item := fnode.itemHead\n	delete(c.items, item.key)\n	fnode.PopItem()","	fnode := c.freqHead\n	item := fnode.itemTail\n	delete(c.items, item.key)\n	fnode.PopItem()"),
 ("C19-capacity-gt","C19","proc/redis/hotkey/counter.go","	if uint8(len(c.items)) >= c.capacity {","	if uint8(len(c.items)) > c.capacity {"),
 ("C19-freq-plus2","C19","proc/redis/hotkey/counter.go","		targetFreqNode = &freqNode{freq: curFreq + 1}","		targetFreqNode = &freqNode{freq: curFreq + 2}"),
 ("C19-insert-lt","C19","proc/redis/hotkey/collector.go","		return s.data[i].Counter.Value() <= key.Counter.Value()","		return s.data[i].Counter.Value() >= key.Counter.Value()"),
 ("C20-no-dec","C20","proc/listener.go","	l.stats.CxDestroyTotal.Inc()\n	l.stats.CxActive.Dec()","	l.stats.CxDestroyTotal.Inc()"),
 ("C20-rq-success-only","C20","proc/redis/redis.go","		case Error:\n			p.stats.Downstream.RqFailureTotal.Inc()","		case Error:"),
 ("C20-tcp-no-destroy","C20","proc/tcp/proc.go","		p.stats.Upstream.CxDestroyTotal.Inc()\n","		\n"),
]
wt='/tmp/mutgen'
subprocess.run(['git','-C','/repo','worktree','remove','--force',wt],capture_output=True)
subprocess.check_call(['git','-C','/repo','worktree','add','--detach',wt,'HEAD'],stdout=subprocess.DEVNULL,stderr=subprocess.DEVNULL)
os.makedirs('/verif/mutants',exist_ok=True)
bad=[]
for mid,prop,f,old,new in M:
    p=os.path.join(wt,f); s=open(p).read()
    if s.count(old)!=1:
        bad.append((mid,s.count(old))); continue
    open(p,'w').write(s.replace(old,new))
    r=subprocess.run(['go','build','./...'],cwd=wt,capture_output=True,text=True,env=dict(os.environ,GOFLAGS='-mod=mod',GOPROXY='off',GOSUMDB='off'))
    d=subprocess.check_output(['git','-C',wt,'diff']).decode()
    subprocess.check_call(['git','-C',wt,'checkout','--','.'])
    if r.returncode!=0:
        bad.append((mid,'build: '+r.stderr[:200])); continue
    open(f'/verif/mutants/{mid}.diff','w').write(d)
subprocess.run(['git','-C','/repo','worktree','remove','--force',wt],capture_output=True)
print('generated',len(M)-len(bad),'bad',bad)
