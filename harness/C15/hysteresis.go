//vf:pkg proc/internal/hc
package hc

import (
	"errors"
	"time"

	hostpkg "github.com/samaritan-proxy/samaritan/host"
	hcpb "github.com/samaritan-proxy/samaritan/pb/config/hc"
	"github.com/samaritan-proxy/samaritan/proc/internal/log"

	nd "github.com/samaritan-proxy/samaritan/vfnd"
)

type vfChecker struct{ next bool }

func (c *vfChecker) Check(addr string, timeout time.Duration) error {
	if c.next {
		return nil
	}
	return errors.New("down")
}

// VfC15_Hysteresis: a host's health flips only after at least `threshold` consecutive contrary
// check results; any opposite result restarts the count; it flips back the same way; and the
// usable set follows the flag.
func VfC15_Hysteresis() {
	n := nd.Param("results", 7)
	rise := uint32(nd.Concrete(nd.IntRange("rise", 1, 3)))
	fall := uint32(nd.Concrete(nd.IntRange("fall", 1, 3)))
	h := hostpkg.New("10.0.0.1:80")
	set := hostpkg.NewSet(h)
	ck := &vfChecker{}
	m := &Monitor{logger: log.New("vf"), config: &hcpb.HealthCheck{RiseThreshold: rise, FallThreshold: fall}, checker: ck, hostSet: set}
	run := 0 // length of the current run of results contrary to the current state
	nd.PanicLabel("monitor")
	for i := 0; i < n; i++ {
		ok := nd.Bool("result")
		was := h.IsHealthy()
		ck.next = ok
		m.checkHostAndUpdateStatus(h)
		now := h.IsHealthy()
		if ok == was {
			run = 0
		} else {
			run++
		}
		if now != was {
			nd.Cover("flipped")
			thr := fall
			if now {
				thr = rise
			}
			nd.Assert(ok == now, "the flip goes in the direction of the last result")
			nd.Assert(run >= int(thr), "health flips only after at least the configured number of consecutive contrary results")
			run = 0
		}
		usable := len(set.Healthy()) == 1
		nd.Assert(usable == now, "the usable set follows the health flag")
	}
}

type vfCountChecker struct{ n int }

func (c *vfCountChecker) Check(addr string, timeout time.Duration) error { c.n++; return nil }

// VfC09_MonitorRound: one health-check round over a host set — of a few hosts, of exactly the
// worker limit, and of one host more than the worker limit — checks every host once and ends
// (Monitor.Stop and with it the service's Stop wait for the round).
func VfC09_MonitorRound() {
	sizes := []int{0, 1, 3, MaximumConcurrency, MaximumConcurrency + 1}
	n := sizes[nd.Concrete(nd.Choice("hosts", len(sizes)))]
	hs := make([]*hostpkg.Host, n)
	for i := range hs {
		hs[i] = hostpkg.New("10.0." + itoa(i/250) + "." + itoa(i%250) + ":80")
	}
	set := hostpkg.NewSet(hs...)
	ck := &vfCountChecker{}
	m := &Monitor{logger: log.New("vf"), config: &hcpb.HealthCheck{RiseThreshold: 1, FallThreshold: 1}, checker: ck, hostSet: set}
	done := false
	nd.PanicLabel("monitor-round")
	go func() { m.checkHosts(); done = true }()
	nd.Quiesce()
	nd.Assert(done, "a health-check round ends, whatever the number of hosts (Stop waits for it)")
	nd.Assert(ck.n == n, "every host is checked once per round")
	if n > MaximumConcurrency {
		nd.Cover("more-hosts-than-workers")
	}
}

func itoa(i int) string {
	if i == 0 {
		return "0"
	}
	s := ""
	for i > 0 {
		s = string(rune('0'+i%10)) + s
		i /= 10
	}
	return s
}
