#!/bin/bash
# usage: try_fn.sh <patch.diff> <pkg> <fn> <files> [timeout] [extra vf run args]
# Runs ONE harness against a scratch worktree of /repo with the change applied (VF_REPO).
patch=$(readlink -f "$1"); pkg=$2; fn=$3; files=$4; to=${5:-600}; shift 5
wt=/tmp/seedrun/fn-$fn-$$; mkdir -p /tmp/seedrun
git -C /repo worktree add --detach "$wt" HEAD >/dev/null 2>&1 || { echo "worktree failed"; exit 9; }
trap 'git -C /repo worktree remove --force "$wt" >/dev/null 2>&1' EXIT
( cd "$wt" && git apply "$patch" ) || { echo "patch does not apply"; exit 9; }
VF_REPO="$wt" /verif/tools/run1.sh "$pkg" "$fn" "$files" "$to" "$@"
