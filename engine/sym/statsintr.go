package sym

import (
	"go/types"

	"golang.org/x/tools/go/ssa"
)

// kirk91/stats: scope look-ups run tag-extraction regexps and a flushing store; they are replaced
// by "one fresh metric object per distinct (scope, name)", memoised on the scope object.
// Counter.Inc/Add, Gauge.Inc/Dec/... are executed from their SSA (atomics). Histogram.Record is empty.
const kstats = "github.com/kirk91/stats"

func (e *Engine) statsAlloc(st *State, typ string) Ptr {
	return e.allocMem(st, e.lookupType(kstats, typ))
}

func registerStats(e *Engine) {
	I := e.intr
	memo := func(typ string) Intrinsic {
		return func(e *Engine, st *State, th *Thread, args []Value, call *ssa.CallCommon) (Value, bool) {
			sp := args[0].(Ptr)
			name := e.constStrArg(st, args[1], "stats name")
			if sp.Obj == 0 {
				e.oblige(st, e.C.False, "panic", "nil-deref", "stats scope is nil")
			}
			o := e.obj(st, sp.Obj)
			k := typ + ":" + name
			if o.Aux != nil {
				if v, ok := o.Aux[k]; ok {
					return v, true
				}
			}
			p := e.statsAlloc(st, typ)
			w := e.wobj(st, sp.Obj)
			if w.Aux == nil {
				w.Aux = map[string]Value{}
			}
			w.Aux[k] = p
			return p, true
		}
	}
	I["(*"+kstats+".Scope).Counter"] = memo("Counter")
	I["(*"+kstats+".Scope).Gauge"] = memo("Gauge")
	I["(*"+kstats+".Scope).Histogram"] = memo("Histogram")
	I["(*"+kstats+".Scope).NewChild"] = memo("Scope")
	I["(*"+kstats+".Store).CreateScope"] = func(e *Engine, st *State, th *Thread, args []Value, call *ssa.CallCommon) (Value, bool) {
		return e.statsAlloc(st, "Scope"), true
	}
	I["(*"+kstats+".Store).DeleteScope"] = func(e *Engine, st *State, th *Thread, args []Value, call *ssa.CallCommon) (Value, bool) {
		return nil, true
	}
	I["(*"+kstats+".Histogram).Record"] = func(e *Engine, st *State, th *Thread, args []Value, call *ssa.CallCommon) (Value, bool) {
		return nil, true
	}
	// utils.BuildStats(scope, &struct): reflection-based filling of *Scope/*Counter/*Gauge/*Histogram fields.
	I["github.com/samaritan-proxy/samaritan/utils.BuildStats"] = func(e *Engine, st *State, th *Thread, args []Value, call *ssa.CallCommon) (Value, bool) {
		scope := args[0]
		iv := args[1].(Iface)
		p := iv.V.(Ptr)
		stt, ok := iv.T.Underlying().(*types.Pointer).Elem().Underlying().(*types.Struct)
		if !ok {
			e.unsupported("BuildStats on %v", iv.T)
		}
		pt := iv.T.Underlying().(*types.Pointer).Elem()
		for i := 0; i < stt.NumFields(); i++ {
			ft, ok := stt.Field(i).Type().(*types.Pointer)
			if !ok {
				continue
			}
			named, ok := ft.Elem().(*types.Named)
			if !ok {
				if al, ok2 := ft.Elem().(*types.Alias); ok2 {
					named, ok = types.Unalias(al).(*types.Named)
				}
				if !ok {
					continue
				}
			}
			if named.Obj().Pkg() == nil || named.Obj().Pkg().Path() != kstats {
				continue
			}
			cell := Ptr{Obj: p.Obj, Off: p.Off + e.L.fieldOff(pt, i)}
			cur := e.obj(st, cell.Obj).Cells[cell.Off].(Ptr)
			if cur.Obj != 0 {
				continue
			}
			switch named.Obj().Name() {
			case "Scope":
				e.setCell(st, cell, scope)
			case "Counter", "Gauge", "Histogram":
				e.setCell(st, cell, e.statsAlloc(st, named.Obj().Name()))
			}
		}
		return Iface{}, true
	}
}
