//vf:pkg proc/redis
package redis

import (
	nd "github.com/samaritan-proxy/samaritan/vfnd"
)

// VfC04_Classify: a backend reply is given to the client unless it is an error whose first
// space-delimited word is MOVED / ASK (any case) — then it goes to the redirection callback and
// the client does not see it — or CLUSTERDOWN, which goes to its callback.
func VfC04_Classify() {
	c := vfFakeClient()
	var redirected, down *simpleRequest
	c.onRedirection = func(req *simpleRequest, resp *RespValue) { redirected = req }
	c.onClusterDown = func(req *simpleRequest, resp *RespValue) { down = req }
	typs := []RespType{Error, SimpleString, BulkString, Integer}
	typ := typs[nd.Concrete(nd.Choice("type", len(typs)))]
	l := nd.Concrete(nd.IntRange("len", 0, nd.Param("maxlen", 8)))
	text := nd.Bytes("t", l)
	for i := range text {
		nd.Assume(text[i] < 0x80) // ASCII error text; see outside_claim
	}
	req := newSimpleRequest(newArray(*newBulkString("get"), *newBulkString("k")))
	reply := &RespValue{Type: typ, Text: text}
	nd.PanicLabel("handleResp")
	c.handleResp(req, reply)
	// reference: first word, lower-cased
	sp := -1
	for i := 0; i < l; i++ {
		if text[i] == ' ' && sp < 0 {
			sp = i
		}
	}
	word := ""
	if sp >= 0 {
		word = string(vfLowerASCII(text[:sp]))
	}
	isRedirect := typ == Error && (word == "moved" || word == "ask")
	isDown := typ == Error && word == "clusterdown"
	switch {
	case isRedirect:
		nd.Cover("redirect")
		nd.Assert(redirected == req && !vfDone(req.done), "a MOVED/ASK error goes to the redirection handler and is not shown to the client")
	case isDown:
		nd.Cover("clusterdown")
		nd.Assert(down == req && redirected == nil, "a CLUSTERDOWN error goes to its handler")
	default:
		nd.Assert(redirected == nil && down == nil && vfDone(req.done) && req.Response() == reply, "any other reply is the client's reply, delivered once")
	}
}

// VfC04_Redirect: MOVED re-sends the same request once to the named node; ASK sends ASKING and
// then the request, in that order, to the named node; both request a slots refresh without ever
// blocking (also when one is already pending). The same holds for every further redirection of
// the same request (stale table after one migration while the next is half done; ASKING and the
// command separated by other traffic): the client never sees the MOVED/ASK error.
func VfC04_Redirect() {
	a, b := "10.0.0.1:7000", "10.0.0.2:7000"
	u, clients := vfNewUpstream(nil, a, b)
	words := []string{"MOVED", "moved", "ASK", "Ask"}
	if nd.Bool("refresh-already-pending") {
		u.triggerSlotsRefresh()
	}
	if nd.Bool("both-nodes-are-known-masters") {
		// a loaded routing table: the node named by a redirection already owns other slots
		u.slots[5], u.slots[4000] = &instance{Addr: a}, &instance{Addr: b}
		nd.Cover("known-masters")
	}
	req := newSimpleRequest(newArray(*newBulkString("set"), *newBulkString("k"), *newBulkBytes(nd.Bytes("v", 2))))
	body := req.Body()
	nd.PanicLabel("redirection")
	hops := nd.Concrete(nd.IntRange("hops", 1, nd.Param("hops", 2)))
	for h := 0; h < hops; h++ {
		w := words[nd.Concrete(nd.Choice("word", len(words)))]
		isAsk := w == "ASK" || w == "Ask"
		target := []string{a, b}[nd.Concrete(nd.Choice("target", 2))]
		slot := []string{"0", "1", "3999", "16383"}[nd.Concrete(nd.Choice("slot", 4))] // every slot number is a valid one
		if h == hops-1 && nd.Bool("target-unreachable") {
			// the named node cannot be connected right now: the client gets an error, it is not left waiting
			u.handleRedirection(req, newError(w+" "+slot+" 10.9.9.9:7000"))
			nd.Assert(vfDone(req.done) && req.Response().Type == Error, "a redirection to a node that cannot be connected answers the request with an error")
			nd.Assert(vfTake(clients[a]) == nil && vfTake(clients[b]) == nil, "nothing is sent to another node instead")
			nd.Cover("unreachable-target")
			return
		}
		if nd.Bool("the-table-already-names-the-target-as-owner-of-that-slot") {
			// e.g. a replica that left its master answers MOVED to the master the table knows: the
			// table is stale in another respect (the replica list), a refresh is still due
			sn, _ := btoi64([]byte(slot))
			u.slots[sn] = &instance{Addr: target}
			nd.Cover("target-is-table-owner")
		}
		u.handleRedirection(req, newError(w+" "+slot+" "+target))
		other := a
		if target == a {
			other = b
		}
		nd.Assert(vfTake(clients[other]) == nil, "nothing is sent to any other node")
		nd.Assert(!vfDone(req.done), "the client is not answered by a redirection itself (it never sees MOVED or ASK), also not by a second one in a row")
		if vfDone(req.done) {
			return
		}
		first := vfTake(clients[target])
		nd.Assert(first != nil, "the redirected command is sent to the node named in the redirection")
		if first == nil {
			return
		}
		if isAsk {
			nd.Cover("ask")
			fb := first.Body().Array
			nd.Assert(len(fb) == 1 && vfBytesEq(vfLowerASCII(fb[0].Text), []byte("asking")), "ASK: ASKING is sent first")
			second := vfTake(clients[target])
			nd.Assert(second == req && second.Body() == body, "ASK: then the very same request, on the same connection")
		} else {
			nd.Cover("moved")
			nd.Assert(first == req && first.Body() == body, "MOVED: the very same request is re-sent")
		}
		nd.Assert(vfTake(clients[target]) == nil, "the command is sent once (executed once on the node that accepts it)")
		nd.Assert(len(u.slotsRefreshCh) == 1, "a slots refresh is requested (exactly one pending token)")
		if h == 1 {
			nd.Cover("redirected-twice")
		}
	}
}

// VfC04_RedirectToBusyNode: the node named by a redirection is reachable but slow: its connection's
// queue is full when the redirection arrives. The redirected command (and ASKING before it) still
// reaches that node once the queue drains; the client is not answered with an error meanwhile.
func VfC04_RedirectToBusyNode() {
	a, b := "10.0.0.1:7000", "10.0.0.2:7000"
	u, clients := vfNewUpstream(nil, a, b)
	target := clients[b]
	nfill := cap(target.pendingReqs)
	for i := 0; i < nfill; i++ {
		target.pendingReqs <- newSimpleRequest(newStringArray("ping"))
	}
	var arrived []*simpleRequest
	stop := make(chan struct{})
	go func() { // the slow node takes requests again as soon as the proxy waits for it
		for {
			select {
			case r := <-target.pendingReqs:
				arrived = append(arrived, r)
			case <-stop:
				return
			}
		}
	}()
	isAsk := nd.Bool("ask")
	word := "MOVED"
	if isAsk {
		word = "ASK"
	}
	req := newSimpleRequest(newArray(*newBulkString("set"), *newBulkString("k"), *newBulkString("v")))
	nd.PanicLabel("redirection")
	u.handleRedirection(req, newError(word+" 42 "+b))
	nd.Quiesce()
	nd.Assert(!vfDone(req.done), "a command redirected to a reachable but busy node is not answered with an error")
	n := len(arrived)
	nd.Assert(n >= nfill+1 && arrived[n-1] == req, "the redirected command reaches the named node once its queue drains")
	if isAsk && n >= 2 {
		ab := arrived[n-2].Body().Array
		nd.Assert(len(ab) == 1 && vfBytesEq(vfLowerASCII(ab[0].Text), []byte("asking")), "ASKING reaches it right before the command")
	}
	nd.Cover("busy-node")
	close(stop)
}
