package sym

import (
	"fmt"
	"go/constant"
	"go/token"
	"go/types"
	"math"
	"os"
	"strings"

	"golang.org/x/tools/go/ssa"
	"vf/smt"
)

// ---------- operand evaluation ----------

func (e *Engine) constVal(c *ssa.Const) Value {
	t := c.Type()
	if c.Value == nil {
		return e.zero(t)
	}
	switch u := t.Underlying().(type) {
	case *types.Basic:
		if w, _, ok := intWidth(u); ok {
			if i, exact := constant.Int64Val(constant.ToInt(c.Value)); exact {
				return e.C.BV(uint64(i), w)
			}
			if ui, exact := constant.Uint64Val(constant.ToInt(c.Value)); exact {
				return e.C.BV(ui, w)
			}
			e.unsupported("const %v", c)
		}
		if isBool(u) {
			return e.C.Bool(constant.BoolVal(c.Value))
		}
		if isString(u) {
			return Str{IsConst: true, S: constant.StringVal(c.Value)}
		}
		if isFloat(u) {
			f, _ := constant.Float64Val(constant.ToFloat(c.Value))
			return Float{f}
		}
	}
	e.unsupported("const of type %v", t)
	return nil
}

func (e *Engine) val(st *State, fr *Frame, v ssa.Value) Value {
	switch x := v.(type) {
	case *ssa.Const:
		return e.constVal(x)
	case *ssa.Global:
		return Ptr{Obj: e.globalObj(st, x)}
	case *ssa.Function:
		return Func{Fn: x}
	case *ssa.Builtin:
		return Func{B: x}
	}
	fi := e.info(fr.Fn)
	i, ok := fi.idx[v]
	if !ok {
		e.unsupported("value %s not found in %s", v.Name(), fr.Fn)
	}
	return fr.Regs[i]
}

func (e *Engine) setReg(fr *Frame, v ssa.Value, x Value) {
	fr.Regs[e.info(fr.Fn).idx[v]] = x
}

// ---------- globals and package initialisation ----------

func (e *Engine) globalObj(st *State, g *ssa.Global) int {
	if id, ok := e.globals[g]; ok {
		return id
	}
	// allocate all globals of the package, then run its initialiser
	pkg := g.Pkg
	for _, m := range pkg.Members {
		if gg, ok := m.(*ssa.Global); ok {
			if _, done := e.globals[gg]; done {
				continue
			}
			et := gg.Type().(*types.Pointer).Elem()
			e.nextBase++
			o := &Object{owner: 0, Kind: ObjMem, Typ: et, Cells: e.zeroCells(et), Tag: gg.String()}
			e.base[e.nextBase] = o
			e.globals[gg] = e.nextBase
		}
	}
	e.ensureInit(pkg)
	return e.globals[g]
}

// skipInit lists packages whose initialisers are not executed (irrelevant runtime state).
var skipInit = map[string]bool{
	"runtime": true, "os": true, "syscall": true, "net": true, "time": true, "reflect": true,
	"internal/poll": true, "internal/cpu": true, "crypto/rand": true, "math/rand": true,
	"internal/godebug": true, "sync": true, "internal/testlog": true, "testing": true,
	"log": true, "net/http": true, "google.golang.org/grpc": true, "flag": true,
	"github.com/samaritan-proxy/samaritan/stats": true, "github.com/kirk91/stats": true, "github.com/samaritan-proxy/samaritan/logger": true,
}

func (e *Engine) ensureInit(pkg *ssa.Package) {
	if e.inited[pkg] {
		return
	}
	e.inited[pkg] = true
	path := pkg.Pkg.Path()
	if skipInit[path] || strings.HasPrefix(path, "google.golang.org/") || strings.HasPrefix(path, "golang.org/x/net") {
		return
	}
	initFn := pkg.Func("init")
	if initFn == nil || len(initFn.Blocks) == 0 {
		return
	}
	t0 := e.res.Steps
	saveMode, saveWork := e.initMode, e.work
	e.initMode = true
	e.initDepth++
	e.work = nil
	ist := e.newState()
	ist.id = 0
	th := &Thread{ID: 0, Name: "init:" + path}
	ist.Threads = []*Thread{th}
	e.pushFrame(ist, th, initFn, nil, nil, nil)
	func() {
		defer func() {
			if r := recover(); r != nil {
				if a, ok := r.(abort); ok {
					msg := fmt.Sprintf("init of %s incomplete: %s: %s", path, a.kind, a.msg)
					e.res.Unsupported = append(e.res.Unsupported, msg)
					if e.Opt.Verbose > 0 {
						fmt.Fprintln(os.Stderr, msg)
					}
					return
				}
				panic(r)
			}
		}()
		for th.Status != TDone {
			e.step(ist)
			if ist.Steps > 20_000_000 {
				panic(abort{"steps", "init too long"})
			}
		}
	}()
	if len(e.work) > 0 {
		e.res.Unsupported = append(e.res.Unsupported, "init of "+path+" forked")
	}
	e.initDepth--
	e.initMode, e.work = saveMode, saveWork
	if e.Opt.Verbose > 1 {
		fmt.Fprintf(os.Stderr, "init %s: %d steps\n", path, e.res.Steps-t0)
	}
}

// ---------- frames ----------

func (e *Engine) pushFrame(st *State, th *Thread, fn *ssa.Function, args []Value, bind []Value, callInst ssa.Value) *Frame {
	if len(fn.Blocks) == 0 {
		e.unsupported("function without body: %s", fn)
	}
	if st.StackLimit > 0 && len(th.Frames) >= st.StackLimit && !th.Panicking {
		// the harness declared that the code under test needs only a bounded stack: recursion
		// beyond it is reported like Go's fatal "stack overflow" (which no recover() catches)
		th.Frames = th.Frames[:1]
		th.Frames[0].Defers = nil
		e.goPanic(st, th, nil, fmt.Sprintf("stack overflow: call depth exceeds %d frames in %s (unbounded recursion)", st.StackLimit, fn))
	}
	if len(th.Frames) >= e.Opt.MaxDepth {
		panic(abort{"unwind", fmt.Sprintf("call depth %d reached in %s", e.Opt.MaxDepth, fn)})
	}
	fi := e.info(fn)
	fr := &Frame{Fn: fn, Block: fn.Blocks[0], Regs: make([]Value, fi.n), CallInst: callInst}
	if len(args) != len(fn.Params) {
		e.unsupported("arity mismatch calling %s: %d args for %d params", fn, len(args), len(fn.Params))
	}
	copy(fr.Regs, args)
	copy(fr.Regs[len(fn.Params):], bind)
	th.Frames = append(th.Frames, fr)
	if !e.initMode || e.initDepth == 0 {
		e.res.Functions[fi.name]++
	}
	return fr
}

// ---------- the step function ----------

func (e *Engine) step(st *State) {
	th := st.thread()
	fr := th.top()
	if fr.Idx >= len(fr.Block.Instrs) {
		e.unsupported("fell off block in %s", fr.Fn)
	}
	in := fr.Block.Instrs[fr.Idx]
	st.Steps++
	e.res.Steps++
	st.decided = st.decided[:0]
	if e.Opt.Verbose > 3 {
		fmt.Fprintf(os.Stderr, "[%d/%d] %s: %s\n", st.id, th.ID, fr.Fn.Name(), in)
	}
	e.exec(st, th, fr, in)
}

// advance moves to the next instruction of the frame that executed `in`.
func next(fr *Frame) { fr.Idx++ }

func (e *Engine) jump(st *State, fr *Frame, to *ssa.BasicBlock, symbolic bool) {
	if symbolic {
		if fr.visits == nil {
			fr.visits = map[*ssa.BasicBlock]int{}
		}
		fr.visits[to]++
		if fr.visits[to] > e.Opt.MaxBlockVisit {
			panic(abort{"unwind", fmt.Sprintf("loop bound %d reached at %s in %s", e.Opt.MaxBlockVisit, e.instrPos(st), fr.Fn)})
		}
	}
	fr.Prev = fr.Block
	fr.Block = to
	fr.Idx = 0
}

func (e *Engine) exec(st *State, th *Thread, fr *Frame, in ssa.Instruction) {
	c := e.C
	switch x := in.(type) {
	case *ssa.DebugRef:
		next(fr)
	case *ssa.Alloc:
		p := e.allocMem(st, x.Type().(*types.Pointer).Elem())
		if !x.Heap {
			if o, ok := st.heap[p.Obj]; ok {
				o.Local = true
			}
		}
		e.setReg(fr, x, p)
		next(fr)
	case *ssa.BinOp:
		e.setReg(fr, x, e.binop(st, x.Op, e.val(st, fr, x.X), e.val(st, fr, x.Y), x.X.Type(), x.Y.Type()))
		next(fr)
	case *ssa.UnOp:
		e.execUnOp(st, th, fr, x)
	case *ssa.Phi:
		// all phis of a block are evaluated simultaneously w.r.t. the predecessor's values
		idx := -1
		for i, p := range fr.Block.Preds {
			if p == fr.Prev {
				idx = i
				break
			}
		}
		if idx < 0 {
			e.unsupported("phi: predecessor not found")
		}
		var vals []Value
		j := fr.Idx
		for ; j < len(fr.Block.Instrs); j++ {
			ph, ok := fr.Block.Instrs[j].(*ssa.Phi)
			if !ok {
				break
			}
			vals = append(vals, e.val(st, fr, ph.Edges[idx]))
		}
		for k, v := range vals {
			e.setReg(fr, fr.Block.Instrs[fr.Idx+k].(*ssa.Phi), v)
		}
		fr.Idx = j
	case *ssa.Call:
		e.execCall(st, th, fr, x, &x.Call, x)
	case *ssa.ChangeInterface:
		e.setReg(fr, x, e.val(st, fr, x.X))
		next(fr)
	case *ssa.ChangeType:
		e.setReg(fr, x, e.val(st, fr, x.X))
		next(fr)
	case *ssa.Convert:
		e.setReg(fr, x, e.convert(st, e.val(st, fr, x.X), x.X.Type(), x.Type()))
		next(fr)
	case *ssa.MakeInterface:
		e.setReg(fr, x, Iface{T: x.X.Type(), V: e.val(st, fr, x.X)})
		next(fr)
	case *ssa.Extract:
		e.setReg(fr, x, e.val(st, fr, x.Tuple).(Tuple).V[x.Index])
		next(fr)
	case *ssa.Field:
		e.setReg(fr, x, e.val(st, fr, x.X).(Struct).F[x.Field])
		next(fr)
	case *ssa.FieldAddr:
		p := e.val(st, fr, x.X).(Ptr)
		e.nilCheck(st, p, "field address")
		st0 := x.X.Type().Underlying().(*types.Pointer).Elem()
		np := Ptr{Obj: p.Obj, Off: p.Off + e.L.fieldOff(st0, x.Field), Sym: p.Sym}
		e.setReg(fr, x, np)
		next(fr)
	case *ssa.IndexAddr:
		e.execIndexAddr(st, fr, x)
		next(fr)
	case *ssa.Index:
		e.execIndex(st, fr, x)
		next(fr)
	case *ssa.Slice:
		e.setReg(fr, x, e.execSlice(st, fr, x))
		next(fr)
	case *ssa.Store:
		p := e.val(st, fr, x.Addr).(Ptr)
		if (st.WatchAll || len(st.Watched) > 0) && e.watched(st, p.Obj) && e.schedPoint(st, th) {
			return
		}
		e.store(st, p, x.Val.Type(), e.val(st, fr, x.Val))
		next(fr)
	case *ssa.MakeSlice:
		e.setReg(fr, x, e.execMakeSlice(st, fr, x))
		next(fr)
	case *ssa.MakeMap:
		id, _ := e.newObj(st, ObjMap, x.Type())
		e.setReg(fr, x, MapV{id})
		next(fr)
	case *ssa.MakeChan:
		n := e.val(st, fr, x.Size).(*smt.Term)
		if !n.IsConst() {
			e.unsupported("make(chan) with symbolic size")
		}
		id, o := e.newObj(st, ObjChan, x.Type())
		o.ChCap = int(n.Val)
		e.setReg(fr, x, ChanV{id})
		next(fr)
	case *ssa.MakeClosure:
		fn := x.Fn.(*ssa.Function)
		bind := make([]Value, len(x.Bindings))
		for i, b := range x.Bindings {
			bind[i] = e.val(st, fr, b)
		}
		e.setReg(fr, x, Func{Fn: fn, Bind: bind})
		next(fr)
	case *ssa.Lookup:
		e.execLookup(st, fr, x)
		next(fr)
	case *ssa.MapUpdate:
		m := e.val(st, fr, x.Map).(MapV)
		e.mapUpdate(st, m, e.val(st, fr, x.Key), e.val(st, fr, x.Value), x.Key.Type())
		next(fr)
	case *ssa.Range:
		e.execRange(st, fr, x)
		next(fr)
	case *ssa.Next:
		e.execNext(st, fr, x)
		next(fr)
	case *ssa.TypeAssert:
		e.execTypeAssert(st, fr, x)
	case *ssa.SliceToArrayPointer:
		s := e.val(st, fr, x.X).(Slice)
		at := x.Type().(*types.Pointer).Elem().Underlying().(*types.Array)
		e.oblige(st, c.Uge(s.Len, e.i64(uint64(at.Len()))), "panic", "slice-to-array", "slice too short for array pointer conversion")
		if s.Obj == 0 {
			e.setReg(fr, x, Ptr{})
		} else {
			off := e.concretize(st, s.Off, "slice-to-array offset")
			e.setReg(fr, x, Ptr{Obj: s.Obj, Off: s.Base + int(off)*s.Stride})
		}
		next(fr)
	case *ssa.If:
		cond := e.val(st, fr, x.Cond).(*smt.Term)
		sym := !cond.IsConst()
		if e.branch(st, cond, "if") {
			e.jump(st, fr, fr.Block.Succs[0], sym)
		} else {
			e.jump(st, fr, fr.Block.Succs[1], sym)
		}
	case *ssa.Jump:
		e.jump(st, fr, fr.Block.Succs[0], false)
	case *ssa.Return:
		var ret Value
		switch len(x.Results) {
		case 0:
		case 1:
			ret = e.val(st, fr, x.Results[0])
		default:
			vs := make([]Value, len(x.Results))
			for i, r := range x.Results {
				vs[i] = e.val(st, fr, r)
			}
			ret = Tuple{vs}
		}
		e.doReturn(st, th, ret)
	case *ssa.RunDefers:
		if len(fr.Defers) > 0 {
			d := fr.Defers[len(fr.Defers)-1]
			fr.Defers = fr.Defers[:len(fr.Defers)-1]
			// stay on RunDefers; the deferred call returns here
			e.invoke(st, th, d.fn, d.args, nil, nil)
		} else {
			next(fr)
		}
	case *ssa.Defer:
		fnv, args := e.prepareCall(st, fr, &x.Call)
		fr.Defers = append(fr.Defers, deferred{fn: fnv, args: args})
		next(fr)
	case *ssa.Go:
		fnv, args := e.prepareCall(st, fr, &x.Call)
		next(fr)
		e.spawn(st, fnv, args)
	case *ssa.Panic:
		v := e.val(st, fr, x.X)
		e.goPanic(st, th, v, "explicit panic: "+e.panicText(st, v))
	case *ssa.Send:
		e.execSend(st, th, fr, x)
	case *ssa.Select:
		e.execSelect(st, th, fr, x)
	default:
		e.unsupported("instruction %T (%s) in %s", in, in, fr.Fn)
	}
}

func (e *Engine) panicText(st *State, v Value) string {
	if i, ok := v.(Iface); ok {
		if s, ok := i.V.(Str); ok {
			if cs, ok := e.strConcrete(st, s); ok {
				return cs
			}
		}
		if i.T != nil {
			return i.T.String()
		}
	}
	return "?"
}

// doReturn pops the current frame and delivers ret to the caller.
func (e *Engine) doReturn(st *State, th *Thread, ret Value) {
	fr := th.top()
	th.Frames = th.Frames[:len(th.Frames)-1]
	if fr.native != nil {
		fr.native(st, ret)
		return
	}
	if len(th.Frames) == 0 {
		th.Status = TDone
		e.onThreadDone(st, th)
		return
	}
	caller := th.top()
	if fr.CallInst != nil {
		e.setReg(caller, fr.CallInst, ret)
		next(caller)
		return
	}
	// returning from a deferred call: caller stays on its RunDefers instruction (or is unwinding)
	if th.Panicking {
		e.unwind(st, th)
	} else if caller.recovering {
		e.finishRecover(st, th)
	}
}

// finishRecover runs the remaining deferred calls of a frame whose panic was recovered and then
// returns from it (through the function's Recover block, which reads the named results).
func (e *Engine) finishRecover(st *State, th *Thread) {
	fr := th.top()
	if len(fr.Defers) > 0 {
		d := fr.Defers[len(fr.Defers)-1]
		fr.Defers = fr.Defers[:len(fr.Defers)-1]
		e.invoke(st, th, d.fn, d.args, nil, nil)
		return
	}
	fr.recovering = false
	if fr.Fn.Recover != nil {
		fr.Block = fr.Fn.Recover
		fr.Idx = 0
		return
	}
	e.doReturn(st, th, e.zeroResults(fr.Fn))
}

// goPanic starts unwinding with a Go panic value.
func (e *Engine) goPanic(st *State, th *Thread, v Value, msg string) {
	th.Panicking = true
	th.PanicVal = v
	th.PanicMsg = msg
	th.PanicPos = e.instrPos(st)
	th.PanicStack = e.stack(st)
	e.unwind(st, th)
}

// unwind runs deferred calls of the frames from the top; if nothing recovers the panic is reported.
func (e *Engine) unwind(st *State, th *Thread) {
	for len(th.Frames) > 0 {
		fr := th.top()
		if th.Recovered {
			// recover() was called by a deferred function of this frame: the panic stops, the
			// remaining deferred calls of the frame still run, then the frame returns normally
			th.Recovered = false
			th.Panicking = false
			fr.recovering = true
			e.finishRecover(st, th)
			return
		}
		if len(fr.Defers) > 0 {
			d := fr.Defers[len(fr.Defers)-1]
			fr.Defers = fr.Defers[:len(fr.Defers)-1]
			e.invoke(st, th, d.fn, d.args, nil, nil)
			return // continue unwinding when the deferred call returns (doReturn → unwind)
		}
		th.Frames = th.Frames[:len(th.Frames)-1]
	}
	// uncaught
	e.res.Obligations["panic@"+th.PanicPos] = &Obligation{Label: "panic", Pos: th.PanicPos, Failed: 1}
	lbl := "go-panic"
	if st.PanicLbl != "" {
		lbl = st.PanicLbl + "/go-panic"
	}
	var m map[string]uint64
	if st.Model != nil {
		m = st.Model
	} else {
		_, m = e.check(st, e.C.True, true)
	}
	f := &Finding{Kind: "panic", Label: lbl, Msg: th.PanicMsg, Pos: th.PanicPos, Model: m,
		Vars: append([]NDVar(nil), st.Vars...), Trace: append([]string(nil), st.Trace...), Stack: th.PanicStack,
		Sched: append([]int(nil), st.schedHist...)}
	e.classify(st, f)
	e.res.Findings = append(e.res.Findings, f)
	panic(abort{"done", "uncaught panic: " + th.PanicMsg})
}

func (e *Engine) classify(st *State, f *Finding) {
	if f.Model == nil {
		return
	}
	f.Notes = map[string]uint64{}
	memo := map[int]uint64{}
	for _, n := range st.Notes {
		f.Notes[n.Label] = smt.Eval(n.T, f.Model, memo)
	}
	for _, c := range st.Classes {
		if smt.Eval(c.Cond, f.Model, memo) == 1 {
			f.Class = c.Label
		}
	}
}

func (e *Engine) zeroResults(fn *ssa.Function) Value {
	r := fn.Signature.Results()
	switch r.Len() {
	case 0:
		return nil
	case 1:
		return e.zero(r.At(0).Type())
	}
	return e.zero(r)
}

// ---------- unary ops ----------

func (e *Engine) execUnOp(st *State, th *Thread, fr *Frame, x *ssa.UnOp) {
	c := e.C
	switch x.Op {
	case token.MUL:
		p := e.val(st, fr, x.X).(Ptr)
		if (st.WatchAll || len(st.Watched) > 0) && e.watched(st, p.Obj) && e.schedPoint(st, th) {
			return
		}
		e.setReg(fr, x, e.load(st, p, x.Type()))
		next(fr)
	case token.NOT:
		e.setReg(fr, x, c.Not(e.val(st, fr, x.X).(*smt.Term)))
		next(fr)
	case token.SUB:
		switch v := e.val(st, fr, x.X).(type) {
		case *smt.Term:
			e.setReg(fr, x, c.Neg(v))
		case Float:
			e.setReg(fr, x, Float{-v.F})
		default:
			e.unsupported("negation of %T", v)
		}
		next(fr)
	case token.XOR:
		e.setReg(fr, x, c.BNot(e.val(st, fr, x.X).(*smt.Term)))
		next(fr)
	case token.ARROW:
		e.execRecv(st, th, fr, x)
	default:
		e.unsupported("unop %v", x.Op)
	}
}

// ---------- binary ops ----------

func (e *Engine) binop(st *State, op token.Token, a, b Value, ta, tb types.Type) Value {
	c := e.C
	switch av := a.(type) {
	case *smt.Term:
		bv, ok := b.(*smt.Term)
		if !ok {
			e.unsupported("binop %v on term and %T", op, b)
		}
		if av.W == 0 { // bool
			switch op {
			case token.EQL:
				return c.Eq(av, bv)
			case token.NEQ:
				return c.Ne(av, bv)
			case token.LAND, token.AND:
				return c.And(av, bv)
			case token.LOR, token.OR:
				return c.Or(av, bv)
			}
			e.unsupported("bool binop %v", op)
		}
		_, signed, _ := intWidth(ta)
		switch op {
		case token.ADD:
			return c.Add(av, bv)
		case token.SUB:
			return c.Sub(av, bv)
		case token.MUL:
			return c.Mul(av, bv)
		case token.QUO, token.REM:
			e.oblige(st, c.Ne(bv, c.BV(0, bv.W)), "panic", "divide-by-zero", "integer divide by zero")
			if signed {
				if op == token.QUO {
					return c.SDiv(av, bv)
				}
				return c.SRem(av, bv)
			}
			if op == token.QUO {
				return c.UDiv(av, bv)
			}
			return c.URem(av, bv)
		case token.AND:
			return c.BAnd(av, bv)
		case token.OR:
			return c.BOr(av, bv)
		case token.XOR:
			return c.BXor(av, bv)
		case token.AND_NOT:
			return c.BAnd(av, c.BNot(bv))
		case token.SHL, token.SHR:
			// shift count: unsigned semantics (negative signed counts panic in Go; treated as huge)
			w := av.W
			var big *smt.Term
			var cnt *smt.Term
			if bv.W > w {
				big = c.Uge(bv, c.BV(uint64(w), bv.W))
				cnt = c.Extract(w-1, 0, bv)
			} else {
				cnt = c.Zext(bv, w)
				big = c.Uge(cnt, c.BV(uint64(w), w))
			}
			if _, bsigned, _ := intWidth(tb); bsigned {
				e.oblige(st, c.Sge(bv, c.BV(0, bv.W)), "panic", "negative-shift", "negative shift amount")
			}
			if op == token.SHL {
				return c.Ite(big, c.BV(0, w), c.Shl(av, cnt))
			}
			if signed {
				return c.Ite(big, c.Ashr(av, c.BV(uint64(w-1), w)), c.Ashr(av, cnt))
			}
			return c.Ite(big, c.BV(0, w), c.Lshr(av, cnt))
		case token.EQL:
			return c.Eq(av, bv)
		case token.NEQ:
			return c.Ne(av, bv)
		case token.LSS:
			if signed {
				return c.Slt(av, bv)
			}
			return c.Ult(av, bv)
		case token.LEQ:
			if signed {
				return c.Sle(av, bv)
			}
			return c.Ule(av, bv)
		case token.GTR:
			if signed {
				return c.Sgt(av, bv)
			}
			return c.Ugt(av, bv)
		case token.GEQ:
			if signed {
				return c.Sge(av, bv)
			}
			return c.Uge(av, bv)
		}
		e.unsupported("int binop %v", op)
	case Str:
		bs := b.(Str)
		switch op {
		case token.ADD:
			return e.strConcat(st, av, bs)
		case token.EQL:
			return e.strEq(st, av, bs)
		case token.NEQ:
			return c.Not(e.strEq(st, av, bs))
		case token.LSS:
			return e.strLess(st, av, bs)
		case token.GTR:
			return e.strLess(st, bs, av)
		case token.LEQ:
			return c.Not(e.strLess(st, bs, av))
		case token.GEQ:
			return c.Not(e.strLess(st, av, bs))
		}
		e.unsupported("string binop %v", op)
	case Float:
		bf, ok := b.(Float)
		if !ok {
			e.unsupported("float binop with %T", b)
		}
		switch op {
		case token.ADD:
			return Float{av.F + bf.F}
		case token.SUB:
			return Float{av.F - bf.F}
		case token.MUL:
			return Float{av.F * bf.F}
		case token.QUO:
			return Float{av.F / bf.F}
		case token.EQL:
			return c.Bool(av.F == bf.F)
		case token.NEQ:
			return c.Bool(av.F != bf.F)
		case token.LSS:
			return c.Bool(av.F < bf.F)
		case token.LEQ:
			return c.Bool(av.F <= bf.F)
		case token.GTR:
			return c.Bool(av.F > bf.F)
		case token.GEQ:
			return c.Bool(av.F >= bf.F)
		}
	}
	switch op {
	case token.EQL:
		return e.valEq(st, a, b, ta)
	case token.NEQ:
		return c.Not(e.valEq(st, a, b, ta))
	}
	e.unsupported("binop %v on %T,%T", op, a, b)
	return nil
}

func (e *Engine) ptrEq(a, b Ptr) *smt.Term {
	c := e.C
	if a.Obj != b.Obj {
		return c.False
	}
	if len(a.Sym) == 0 && len(b.Sym) == 0 {
		return c.Bool(a.Off == b.Off)
	}
	offT := func(p Ptr) *smt.Term {
		t := e.i64(uint64(p.Off))
		for _, s := range p.Sym {
			t = c.Add(t, c.Mul(s.Idx, e.i64(uint64(s.Stride))))
		}
		return t
	}
	return c.Eq(offT(a), offT(b))
}

// valEq: Go's == on two values of static type t.
func (e *Engine) valEq(st *State, a, b Value, t types.Type) *smt.Term {
	c := e.C
	if a == nil && b == nil {
		return c.True
	}
	switch av := a.(type) {
	case *smt.Term:
		return c.Eq(av, b.(*smt.Term))
	case Str:
		return e.strEq(st, av, b.(Str))
	case Float:
		return c.Bool(av.F == b.(Float).F)
	case Ptr:
		bp, ok := b.(Ptr)
		if !ok {
			return c.Bool(av.Obj == 0 && b == nil)
		}
		return e.ptrEq(av, bp)
	case MapV:
		if bm, ok := b.(MapV); ok {
			return c.Bool(av.Obj == bm.Obj)
		}
		return c.Bool(av.Obj == 0)
	case ChanV:
		if bm, ok := b.(ChanV); ok {
			return c.Bool(av.Obj == bm.Obj)
		}
		return c.Bool(av.Obj == 0)
	case Func:
		bf, _ := b.(Func)
		an := av.Fn == nil && av.B == nil
		bn := bf.Fn == nil && bf.B == nil
		if an || bn {
			return c.Bool(an && bn)
		}
		e.unsupported("comparison of non-nil funcs")
	case Slice:
		bs, _ := b.(Slice)
		if bs.Obj == 0 {
			return c.Bool(av.Obj == 0)
		}
		if av.Obj == 0 {
			return c.Bool(bs.Obj == 0)
		}
		e.unsupported("comparison of non-nil slices")
	case Iface:
		bi, ok := b.(Iface)
		if !ok {
			return c.Bool(av.T == nil && b == nil)
		}
		if av.T == nil || bi.T == nil {
			return c.Bool(av.T == nil && bi.T == nil)
		}
		if !types.Identical(av.T, bi.T) {
			return c.False
		}
		return e.valEq(st, av.V, bi.V, av.T)
	case Struct:
		bs := b.(Struct)
		stt := t.Underlying().(*types.Struct)
		r := c.True
		for i := range av.F {
			r = c.And(r, e.valEq(st, av.F[i], bs.F[i], stt.Field(i).Type()))
		}
		return r
	case Arr:
		ba := b.(Arr)
		at := t.Underlying().(*types.Array)
		r := c.True
		for i := range av.E {
			r = c.And(r, e.valEq(st, av.E[i], ba.E[i], at.Elem()))
		}
		return r
	}
	e.unsupported("valEq on %T / %T", a, b)
	return nil
}

func (e *Engine) strConcat(st *State, a, b Str) Str {
	if a.IsConst && b.IsConst {
		return Str{IsConst: true, S: a.S + b.S}
	}
	if a.IsConst && a.S == "" {
		return b
	}
	if b.IsConst && b.S == "" {
		return a
	}
	la := int(e.concretize(st, e.strLen(a), "string concat length"))
	lb := int(e.concretize(st, e.strLen(b), "string concat length"))
	bs := make([]*smt.Term, 0, la+lb)
	for i := 0; i < la; i++ {
		bs = append(bs, e.strByte(st, a, e.i64(uint64(i))))
	}
	for i := 0; i < lb; i++ {
		bs = append(bs, e.strByte(st, b, e.i64(uint64(i))))
	}
	return e.mkStr(st, bs)
}

// ---------- conversions ----------

func (e *Engine) convert(st *State, v Value, from, to types.Type) Value {
	c := e.C
	fu, tu := from.Underlying(), to.Underlying()
	if fw, fsigned, ok := intWidth(fu); ok {
		_ = fw
		t := v.(*smt.Term)
		if tw, _, ok := intWidth(tu); ok {
			return c.Resize(t, tw, fsigned)
		}
		if isFloat(tu) {
			if !t.IsConst() {
				e.unsupported("int→float conversion of a symbolic value")
			}
			if fsigned {
				return Float{float64(int64(c.Sext(t, 64).Val))}
			}
			return Float{float64(t.Val)}
		}
		if isString(tu) {
			// string(rune)
			if t.IsConst() {
				return Str{IsConst: true, S: string(rune(int64(c.Resize(t, 64, fsigned).Val)))}
			}
			// symbolic: ASCII only
			e.assume(st, c.Ult(c.Resize(t, 64, false), e.i64(0x80)), "string(rune): ASCII only")
			return e.mkStr(st, []*smt.Term{c.Resize(t, 8, false)})
		}
		if b, ok := tu.(*types.Basic); ok && b.Kind() == types.UnsafePointer {
			e.unsupported("integer → unsafe.Pointer")
		}
	}
	if isFloat(fu) {
		f := v.(Float)
		if tw, tsigned, ok := intWidth(tu); ok {
			if tsigned {
				return c.BV(uint64(int64(f.F)), tw)
			}
			return c.BV(uint64(f.F), tw)
		}
		if isFloat(tu) {
			if b := tu.(*types.Basic); b.Kind() == types.Float32 {
				return Float{float64(float32(f.F))}
			}
			return f
		}
	}
	if isString(fu) {
		s := v.(Str)
		if sl, ok := tu.(*types.Slice); ok {
			if b, ok := sl.Elem().Underlying().(*types.Basic); ok && b.Kind() == types.Uint8 {
				r := e.strToSlice(st, s)
				return r
			}
			if b, ok := sl.Elem().Underlying().(*types.Basic); ok && b.Kind() == types.Int32 {
				// []rune(s): ASCII only
				n := int(e.concretize(st, e.strLen(s), "[]rune(string) length"))
				out := e.newArray(st, sl.Elem(), n)
				o := e.wobj(st, out.Obj)
				for i := 0; i < n; i++ {
					bt := e.strByte(st, s, e.i64(uint64(i)))
					e.assume(st, c.Ult(bt, c.BV(0x80, 8)), "[]rune(string): ASCII only")
					o.Cells[i] = c.Zext(bt, 32)
				}
				return out
			}
		}
		if isString(tu) {
			return s
		}
	}
	if sl, ok := fu.(*types.Slice); ok && isString(tu) {
		s := v.(Slice)
		if b, ok := sl.Elem().Underlying().(*types.Basic); ok && b.Kind() == types.Uint8 {
			return e.sliceToStr(st, s)
		}
		if b, ok := sl.Elem().Underlying().(*types.Basic); ok && b.Kind() == types.Int32 {
			n := int(e.concretize(st, s.Len, "string([]rune) length"))
			bs := make([]*smt.Term, n)
			for i := 0; i < n; i++ {
				r := e.readElem(st, s, e.i64(uint64(i)), sl.Elem()).(*smt.Term)
				e.assume(st, c.Ult(r, c.BV(0x80, 32)), "string([]rune): ASCII only")
				bs[i] = c.Extract(7, 0, r)
			}
			return e.mkStr(st, bs)
		}
	}
	// pointer ↔ unsafe.Pointer, and identical underlying types
	switch v.(type) {
	case Ptr:
		return v
	}
	if types.Identical(fu, tu) {
		return v
	}
	e.unsupported("convert %v → %v", from, to)
	return nil
}

// assume adds an engine-level assumption (recorded in the result).
func (e *Engine) assume(st *State, cond *smt.Term, why string) {
	if cond.IsTrue() {
		return
	}
	e.res.Assumed[why]++
	if len(st.replay) > 0 {
		e.assertPC(st, cond)
		return
	}
	r, m := e.check(st, cond, true)
	if r == smt.Unsat {
		panic(abort{"infeasible", "engine assumption excludes this path: " + why})
	}
	e.assertPC(st, cond)
	st.Model = m
}

// ---------- indexing and slicing ----------

func (e *Engine) idx64(v Value, t types.Type) *smt.Term {
	tm := v.(*smt.Term)
	_, signed, _ := intWidth(t)
	return e.C.Resize(tm, 64, signed)
}

func (e *Engine) execIndexAddr(st *State, fr *Frame, x *ssa.IndexAddr) {
	xv := e.val(st, fr, x.X)
	i := e.idx64(e.val(st, fr, x.Index), x.Index.Type())
	switch b := xv.(type) {
	case Slice:
		e.boundsCheck(st, i, b.Len, "slice index")
		e.setReg(fr, x, e.elemPtr(b, i))
	case Ptr: // pointer to array
		e.nilCheck(st, b, "index of nil array pointer")
		at := x.X.Type().Underlying().(*types.Pointer).Elem().Underlying().(*types.Array)
		n := int(at.Len())
		e.boundsCheck(st, i, e.i64(uint64(n)), "array index")
		stride := e.L.size(at.Elem())
		if i.IsConst() {
			e.setReg(fr, x, Ptr{Obj: b.Obj, Off: b.Off + int(i.Val)*stride, Sym: b.Sym})
		} else {
			sym := append(append([]SymIdx(nil), b.Sym...), SymIdx{Idx: i, Stride: stride, N: n})
			e.setReg(fr, x, Ptr{Obj: b.Obj, Off: b.Off, Sym: sym})
		}
	default:
		e.unsupported("IndexAddr on %T", xv)
	}
}

func (e *Engine) execIndex(st *State, fr *Frame, x *ssa.Index) {
	xv := e.val(st, fr, x.X)
	i := e.idx64(e.val(st, fr, x.Index), x.Index.Type())
	switch b := xv.(type) {
	case Str:
		e.boundsCheck(st, i, e.strLen(b), "string index")
		e.setReg(fr, x, e.strByte(st, b, i))
	case Arr:
		e.boundsCheck(st, i, e.i64(uint64(len(b.E))), "array index")
		if i.IsConst() {
			e.setReg(fr, x, b.E[i.Val])
			return
		}
		var res *smt.Term
		for k := len(b.E) - 1; k >= 0; k-- {
			t, ok := b.E[k].(*smt.Term)
			if !ok {
				k2 := e.concretize(st, i, "array value index")
				e.setReg(fr, x, b.E[k2])
				return
			}
			if res == nil {
				res = t
			} else {
				res = e.C.Ite(e.C.Eq(i, e.i64(uint64(k))), t, res)
			}
		}
		e.setReg(fr, x, res)
	default:
		e.unsupported("Index on %T", xv)
	}
}

func (e *Engine) execSlice(st *State, fr *Frame, x *ssa.Slice) Value {
	c := e.C
	xv := e.val(st, fr, x.X)
	get := func(v ssa.Value) *smt.Term {
		if v == nil {
			return nil
		}
		return e.idx64(e.val(st, fr, v), v.Type())
	}
	lo, hi, mx := get(x.Low), get(x.High), get(x.Max)
	if lo == nil {
		lo = e.i64(0)
	}
	switch b := xv.(type) {
	case Str:
		n := e.strLen(b)
		if hi == nil {
			hi = n
		}
		e.oblige(st, c.And(c.Ule(lo, hi), c.Ule(hi, n)), "panic", "slice-bounds", "string slice bounds out of range")
		if b.IsConst {
			if lo.IsConst() && hi.IsConst() {
				return Str{IsConst: true, S: b.S[lo.Val:hi.Val]}
			}
			sl := e.strToSlice(st, b)
			b = Str{Sl: sl}
		}
		ns := b.Sl
		ns.Off = c.Add(b.Sl.Off, lo)
		ns.Len = c.Sub(hi, lo)
		ns.Cap = ns.Len
		r := Str{Sl: ns}
		if cs, ok := e.strConcrete(st, r); ok {
			return Str{IsConst: true, S: cs}
		}
		return r
	case Slice:
		if hi == nil {
			hi = b.Len
		}
		if mx == nil {
			mx = b.Cap
		} else {
			e.oblige(st, c.Ule(mx, b.Cap), "panic", "slice-bounds", "slice bounds out of range (max > cap)")
		}
		e.oblige(st, c.And(c.Ule(lo, hi), c.Ule(hi, mx)), "panic", "slice-bounds", "slice bounds out of range")
		if b.Obj == 0 {
			return b
		}
		ns := b
		ns.Off = c.Add(b.Off, lo)
		ns.Len = c.Sub(hi, lo)
		ns.Cap = c.Sub(mx, lo)
		return ns
	case Ptr: // *array
		e.nilCheck(st, b, "slice of nil array pointer")
		at := x.X.Type().Underlying().(*types.Pointer).Elem().Underlying().(*types.Array)
		n := e.i64(uint64(at.Len()))
		if hi == nil {
			hi = n
		}
		if mx == nil {
			mx = n
		}
		e.oblige(st, c.AndN(c.Ule(lo, hi), c.Ule(hi, mx), c.Ule(mx, n)), "panic", "slice-bounds", "slice bounds out of range")
		if len(b.Sym) > 0 {
			b = e.resolvePtr(st, b)
		}
		return Slice{Obj: b.Obj, Base: b.Off, Stride: e.L.size(at.Elem()), ArrLen: int(at.Len()),
			Off: lo, Len: c.Sub(hi, lo), Cap: c.Sub(mx, lo)}
	}
	e.unsupported("Slice on %T", xv)
	return nil
}

const maxSymAlloc = 1 << 17

func (e *Engine) execMakeSlice(st *State, fr *Frame, x *ssa.MakeSlice) Value {
	c := e.C
	ln := e.idx64(e.val(st, fr, x.Len), x.Len.Type())
	cp := e.idx64(e.val(st, fr, x.Cap), x.Cap.Type())
	elem := x.Type().Underlying().(*types.Slice).Elem()
	e.oblige(st, c.And(c.Sge(ln, e.i64(0)), c.Sle(ln, cp)), "panic", "makeslice", "makeslice: len out of range")
	var n uint64
	if cp.IsConst() {
		n = cp.Val
	} else {
		mx, ok := e.maxValue(st, cp, maxSymAlloc)
		if !ok {
			// attacker-sized allocation
			e.oblige(st, c.Ule(cp, e.i64(maxSymAlloc)), "panic", "huge-alloc", "allocation size not bounded by the input read so far")
			mx = maxSymAlloc
		}
		n = mx
	}
	if n > 1<<24 {
		e.unsupported("make of %d elements", n)
	}
	s := e.newArray(st, elem, int(n))
	s.Len, s.Cap = ln, cp
	return s
}

// ---------- type assertions ----------

func (e *Engine) implements(dyn types.Type, iface *types.Interface) bool {
	return types.Implements(dyn, iface)
}

func (e *Engine) execTypeAssert(st *State, fr *Frame, x *ssa.TypeAssert) {
	v := e.val(st, fr, x.X).(Iface)
	ok := false
	var res Value
	if v.T != nil {
		if it, isI := x.AssertedType.Underlying().(*types.Interface); isI {
			ok = e.implements(v.T, it)
			res = v
		} else {
			ok = types.Identical(v.T, x.AssertedType)
			res = v.V
		}
	}
	if x.CommaOk {
		if !ok {
			res = e.zero(x.AssertedType)
		}
		e.setReg(fr, x, Tuple{[]Value{res, e.C.Bool(ok)}})
		next(fr)
		return
	}
	if !ok {
		e.goPanic(st, st.thread(), Iface{}, fmt.Sprintf("interface conversion: %v is not %v", v.T, x.AssertedType))
		return
	}
	e.setReg(fr, x, res)
	next(fr)
}

var _ = math.MaxInt64

func (e *Engine) watched(st *State, obj int) bool {
	if st.WatchAll {
		if o := e.obj(st, obj); o != nil && !o.Local {
			return true
		}
		return false
	}
	for _, w := range st.Watched {
		if w == obj {
			return true
		}
	}
	return false
}
