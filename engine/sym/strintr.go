package sym

import (
	"go/types"
	"strconv"
	"strings"

	"golang.org/x/tools/go/ssa"
	"vf/smt"
)

// Pure-callee summaries and formatting intrinsics.

// lowerView returns a fresh byte view with ASCII upper-case letters lowered (or raised).
func (e *Engine) caseView(st *State, v Slice, upper bool, what string) Slice {
	c := e.C
	if v.Obj == 0 {
		return v
	}
	out := e.cloneView(st, v, false)
	o := e.wobj(st, out.Obj)
	n := out.ArrLen
	for k := 0; k < n; k++ {
		b, ok := o.Cells[k].(*smt.Term)
		if !ok {
			continue
		}
		if b.IsConst() {
			ch := byte(b.Val)
			if ch >= 0x80 {
				// a concrete non-ASCII byte among symbolic ones: the element-wise summary would be
				// wrong (Unicode case mapping / folding); fully concrete inputs never get here
				kk := e.i64(uint64(k))
				inView := c.And(c.Ule(v.Off, kk), c.Ult(kk, c.Add(v.Off, v.Len)))
				e.assume(st, c.Not(inView), what+": ASCII-only summary (non-ASCII bytes are outside the claim)")
			}
			if upper && ch >= 'a' && ch <= 'z' {
				ch -= 32
			} else if !upper && ch >= 'A' && ch <= 'Z' {
				ch += 32
			}
			o.Cells[k] = c.BV(uint64(ch), 8)
			continue
		}
		// ASCII-only summary: engine assumption on the bytes inside the view
		kk := e.i64(uint64(k))
		inView := c.And(c.Ule(v.Off, kk), c.Ult(kk, c.Add(v.Off, v.Len)))
		if !inView.IsFalse() {
			e.assume(st, c.Implies(inView, c.Ult(b, c.BV(0x80, 8))), what+": ASCII-only summary (non-ASCII bytes are outside the claim)")
		}
		if upper {
			isL := c.And(c.Uge(b, c.BV('a', 8)), c.Ule(b, c.BV('z', 8)))
			o.Cells[k] = c.Ite(isL, c.Sub(b, c.BV(32, 8)), b)
		} else {
			isU := c.And(c.Uge(b, c.BV('A', 8)), c.Ule(b, c.BV('Z', 8)))
			o.Cells[k] = c.Ite(isU, c.Add(b, c.BV(32, 8)), b)
		}
	}
	return out
}

func (e *Engine) fmtArg(st *State, verb byte, a Value) (Str, bool) {
	iv, ok := a.(Iface)
	if !ok {
		return Str{}, false
	}
	if iv.T == nil {
		return Str{IsConst: true, S: "<nil>"}, true
	}
	switch v := iv.V.(type) {
	case Str:
		if verb == 'q' {
			cs, ok := e.strConcrete(st, v)
			if !ok {
				return Str{}, false
			}
			return Str{IsConst: true, S: strconv.Quote(cs)}, true
		}
		return v, true
	case Slice:
		if b, ok := iv.T.Underlying().(*types.Slice); ok {
			if bb, ok := b.Elem().Underlying().(*types.Basic); ok && bb.Kind() == types.Uint8 && (verb == 's' || verb == 'v') && verb == 's' {
				return e.sliceToStr(st, v), true
			}
		}
	case *smt.Term:
		if v.W == 0 {
			if v.IsConst() {
				return Str{IsConst: true, S: strconv.FormatBool(v.Val == 1)}, true
			}
			return Str{}, false
		}
		if !v.IsConst() {
			return Str{}, false
		}
		_, signed, _ := intWidth(iv.T)
		if signed {
			return Str{IsConst: true, S: strconv.FormatInt(int64(e.C.Sext(v, 64).Val), 10)}, true
		}
		return Str{IsConst: true, S: strconv.FormatUint(v.Val, 10)}, true
	case Ptr:
		// error values built by errors.New: *errors.errorString{s string}
		if strings.HasSuffix(iv.T.String(), "errors.errorString") && v.Obj != 0 {
			if s, ok := e.obj(st, v.Obj).Cells[v.Off].(Str); ok {
				return s, true
			}
		}
	}
	return Str{}, false
}

// sprintf supports the verbs %s %d %v %q on strings, byte slices, concrete integers and
// errors.New values; anything else is reported as unsupported.
func (e *Engine) sprintf(st *State, format string, args []Value) Str {
	out := Str{IsConst: true}
	ai := 0
	i := 0
	lit := func(s string) { out = e.strConcat(st, out, Str{IsConst: true, S: s}) }
	for i < len(format) {
		j := strings.IndexByte(format[i:], '%')
		if j < 0 {
			lit(format[i:])
			break
		}
		lit(format[i : i+j])
		i += j + 1
		if i >= len(format) {
			break
		}
		verb := format[i]
		i++
		if verb == '%' {
			lit("%")
			continue
		}
		if ai >= len(args) {
			lit("%!" + string(verb) + "(MISSING)")
			continue
		}
		s, ok := e.fmtArg(st, verb, args[ai])
		ai++
		if !ok {
			e.unsupported("fmt: verb %%%c on this argument", verb)
		}
		out = e.strConcat(st, out, s)
	}
	return out
}

func (e *Engine) variadicArgs(st *State, v Value) []Value {
	sl := v.(Slice)
	if sl.Obj == 0 {
		return nil
	}
	n := int(sl.Len.Val)
	out := make([]Value, n)
	for i := 0; i < n; i++ {
		out[i] = e.load(st, e.elemPtr(sl, e.i64(uint64(i))), types.NewInterfaceType(nil, nil))
	}
	return out
}

func registerStr(e *Engine) {
	I := e.intr
	// Fully concrete inputs are computed by the real functions (Unicode case mapping and folding
	// included: "a\u017fk" folds to "ask", "\u212a" lowers to "k"); symbolic inputs use the
	// element-wise ASCII summary under a recorded assumption.
	concSl := func(st *State, v Slice) (string, bool) {
		if v.Obj == 0 {
			return "", v.Len.IsConst() && v.Len.Val == 0
		}
		return e.strConcrete(st, e.sliceAsStr(v))
	}
	I["strings.ToLower"] = func(e *Engine, st *State, th *Thread, args []Value, call *ssa.CallCommon) (Value, bool) {
		s := args[0].(Str)
		if cs, ok := e.strConcrete(st, s); ok {
			return Str{IsConst: true, S: strings.ToLower(cs)}, true
		}
		return Str{Sl: e.caseView(st, s.Sl, false, "strings.ToLower")}, true
	}
	I["strings.ToUpper"] = func(e *Engine, st *State, th *Thread, args []Value, call *ssa.CallCommon) (Value, bool) {
		s := args[0].(Str)
		if cs, ok := e.strConcrete(st, s); ok {
			return Str{IsConst: true, S: strings.ToUpper(cs)}, true
		}
		return Str{Sl: e.caseView(st, s.Sl, true, "strings.ToUpper")}, true
	}
	I["bytes.ToLower"] = func(e *Engine, st *State, th *Thread, args []Value, call *ssa.CallCommon) (Value, bool) {
		if cs, ok := concSl(st, args[0].(Slice)); ok && !isASCII(cs) {
			return e.strToSlice(st, Str{IsConst: true, S: strings.ToLower(cs)}), true
		}
		return e.caseView(st, args[0].(Slice), false, "bytes.ToLower"), true
	}
	I["bytes.ToUpper"] = func(e *Engine, st *State, th *Thread, args []Value, call *ssa.CallCommon) (Value, bool) {
		if cs, ok := concSl(st, args[0].(Slice)); ok && !isASCII(cs) {
			return e.strToSlice(st, Str{IsConst: true, S: strings.ToUpper(cs)}), true
		}
		return e.caseView(st, args[0].(Slice), true, "bytes.ToUpper"), true
	}
	I["bytes.EqualFold"] = func(e *Engine, st *State, th *Thread, args []Value, call *ssa.CallCommon) (Value, bool) {
		if ca, ok := concSl(st, args[0].(Slice)); ok {
			if cb, ok := concSl(st, args[1].(Slice)); ok {
				return e.C.Bool(strings.EqualFold(ca, cb)), true
			}
		}
		a := e.caseView(st, args[0].(Slice), false, "bytes.EqualFold")
		b := e.caseView(st, args[1].(Slice), false, "bytes.EqualFold")
		return e.strEq(st, e.sliceAsStr(a), e.sliceAsStr(b)), true
	}
	I["strings.EqualFold"] = func(e *Engine, st *State, th *Thread, args []Value, call *ssa.CallCommon) (Value, bool) {
		if ca, ok := e.strConcrete(st, args[0].(Str)); ok {
			if cb, ok := e.strConcrete(st, args[1].(Str)); ok {
				return e.C.Bool(strings.EqualFold(ca, cb)), true
			}
		}
		a := e.strToSlice(st, args[0].(Str))
		b := e.strToSlice(st, args[1].(Str))
		return e.strEq(st, e.sliceAsStr(e.caseView(st, a, false, "strings.EqualFold")), e.sliceAsStr(e.caseView(st, b, false, "strings.EqualFold"))), true
	}
	I["fmt.Sprintf"] = func(e *Engine, st *State, th *Thread, args []Value, call *ssa.CallCommon) (Value, bool) {
		f := e.constStrArg(st, args[0], "fmt.Sprintf format")
		return e.sprintf(st, f, e.variadicArgs(st, args[1])), true
	}
	I["fmt.Errorf"] = func(e *Engine, st *State, th *Thread, args []Value, call *ssa.CallCommon) (Value, bool) {
		f := e.constStrArg(st, args[0], "fmt.Errorf format")
		s := e.sprintf(st, f, e.variadicArgs(st, args[1]))
		et := e.lookupType("errors", "errorString")
		p := e.allocMem(st, et)
		e.setCell(st, p, s)
		return Iface{T: types.NewPointer(et), V: p}, true
	}
}

func isASCII(s string) bool {
	for i := 0; i < len(s); i++ {
		if s[i] >= 0x80 {
			return false
		}
	}
	return true
}
