#!/bin/bash
# runs every thorough check (2 at a time), each with a 50 min cap; evidence is restored to the quick one afterwards
mkdir -p /tmp/thorough
run() { p=$1; cp /verif/evidence/$p.json /tmp/thorough/$p.quick.json 2>/dev/null
  /usr/bin/time -f "$p wall=%e cpu=%U+%S" timeout 3000 /verif/bin/vf check $p --tier thorough > /tmp/thorough/$p.log 2>&1; echo "$p rc=$? $(tail -1 /tmp/thorough/$p.log)" >> /tmp/thorough/summary.txt
  cp /verif/evidence/$p.json /tmp/thorough/$p.thorough.json 2>/dev/null; cp /tmp/thorough/$p.quick.json /verif/evidence/$p.json 2>/dev/null; }
export -f run
: > /tmp/thorough/summary.txt
ls /verif/checks/C*.json | xargs -n1 basename | sed 's/.json//' | xargs -P 2 -I{} bash -c 'run {}'
