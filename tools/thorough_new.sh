#!/bin/bash
# usage: thorough_new.sh <file with "Cxx obligation-id" lines> [cap seconds]  -- runs the thorough tier of single obligations
# (vf check --only), 2 at a time; evidence goes elsewhere (VF_EVID unused: the evidence file is restored afterwards)
list=$1; cap=${2:-600}; out=/tmp/thorough_new; mkdir -p $out; : > $out/summary.txt
run() { p=$1; id=$2; cap=$3; out=/tmp/thorough_new
  safe=$(echo "$id" | tr '/ ' '__')
  s=$(date +%s)
  timeout $cap /verif/bin/vf check $p --tier thorough --only "$id" > $out/$safe.log 2>&1; rc=$?
  e=$(date +%s)
  echo "$p $id rc=$rc wall=$((e-s))s $(grep -E '^(INCONCLUSIVE|VIOLATION)' $out/$safe.log | head -1 | cut -c1-200)" >> $out/summary.txt; }
export -f run
# evidence files are rewritten by --only runs: save and restore them
mkdir -p $out/evid; cp /verif/evidence/C*.json $out/evid/
cat $list | xargs -P 2 -L 1 bash -c 'run $0 $1 '"$cap"
cp $out/evid/C*.json /verif/evidence/
